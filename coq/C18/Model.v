(* C18 - small-step model of the signal code of Potassco::Application (src/application.cpp):

     int  blockSignals()          { return fetch_and_inc(blocked_); }                       (also shutdown(bool))
     void unblockSignals(bool d)  { if (fetch_and_dec(blocked_) == 1) {
                                      int pend = fetch_and_clear(pending_);                  (one atomic step since the repair)
                                      if (pend && d) processSignal(pend); } }
     void processSignal(int sig)  { if (fetch_and_inc(blocked_) == 0) { if (!onSignal(sig)) return; }
                                    else if (pending_ == 0) { pending_ = sig; }
                                    fetch_and_dec(blocked_); }

   One thread.  The main flow executes a list of Block | Unblock d; a signal that arrives pushes an activation of
   processSignal on a stack (handlers nest LIFO); before every atomic step of the running activation a schedule
   entry decides whether that step executes (0) or a signal s <> 0 arrives.  Callback answers are data; a callback
   may also call blockSignals() itself and leave the release to the main flow ([cb_block], a transition of its own:
   Proofs.reach_cbb; Disp.cstep executes it for OS-level answer code 4).
   Ghost accounting: every arrival is a token (its index); the token is in exactly one place (Proofs.v).

   [atomic = true]  is the code as it is (after the repair), [atomic = false] the code before the repair
   (read pending_, then clear it: two steps), kept for the refutation c18_lost_before_repair.            *)
Require Import V.Lib.Base.
Local Open Scope Z_scope.

Inductive op := Block | Unblock (deliver : bool).

(* program counter of a processSignal activation = the atomic step it executes next *)
Inductive hpc := HInc | HCbEnter | HCbExit | HTest | HWrite | HDec.

Record hframe := mkH {
  h_sig : Z;        (* signal number *)
  h_id  : nat;      (* ghost: the arrival this activation works for *)
  h_def : bool;     (* the nested call in unblockSignals (deferred delivery), not an arrival *)
  h_pc  : hpc;
  h_r   : Z }.      (* what fetch_and_inc returned (valid after HInc) *)

(* main flow: at an operation boundary / after the outermost decrement / between read and clear (old code only) *)
Inductive mpc := MOp | MTake (d : bool) | MClear (d : bool) (p : Z) (pid : nat).

Inductive fate :=
| FDelivered (s : Z)   (* handed to the callback (with signal number s) *)
| FDiscarded           (* arrived while blocked and found the slot occupied *)
| FDropped             (* taken by an outermost unblockSignals(false) *)
| FOverwritten         (* its number was in the slot and another arrival's write replaced it *)
| FStopLost            (* deferred delivery found blocked_ <> 0 and the slot occupied (only after a stop) *)
| FLost.               (* its number was in the slot when unblockSignals cleared it without having read it *)

Record st := mk {
  cbt : Z;                       (* ghost: blocks taken by callbacks so far (never decreases) *)
  blocked : Z; pending : Z;
  pend_id : nat;                 (* ghost: whose number sits in pending_ (meaningful iff pending <> 0) *)
  mpc_ : mpc; ops : list op;     (* main flow *)
  stack : list hframe;           (* processSignal activations above the main flow, top first *)
  answers : list bool;           (* answers of the callback, in invocation order; true = continue *)
  arrs : list Z;                 (* ghost: signal numbers of the arrivals so far (arrival i = nth i) *)
  depth : Z;                     (* ghost: blocks the application holds: taken by the main flow or by a callback (cb_block), not yet released *)
  stops : Z;                     (* ghost: callbacks that answered stop *)
  fates : list (nat * fate) }.   (* ghost: what became of the arrivals that are no longer in flight *)

Definition set_pc (f : hframe) (p : hpc) : hframe := mkH (h_sig f) (h_id f) (h_def f) p (h_r f).

Definition init (o : list op) (a : list bool) : st := mk 0 0 0 O MOp o [] a [] 0 0 [].

(* a signal arrives: sigHandler -> processSignal(sg) *)
Definition arrive (sg : Z) (s : st) : st :=
  mk (cbt s) (blocked s) (pending s) (pend_id s) (mpc_ s) (ops s)
     (mkH sg (length (arrs s)) false HInc 0 :: stack s) (answers s)
     (arrs s ++ [sg]) (depth s) (stops s) (fates s).

(* one atomic step of the top activation f of processSignal *)
Definition hstep (f : hframe) (rest : list hframe) (s : st) : st :=
  match h_pc f with
  | HInc =>      (* r = fetch_and_inc(blocked_) *)
      mk (cbt s) (blocked s + 1) (pending s) (pend_id s) (mpc_ s) (ops s)
         (mkH (h_sig f) (h_id f) (h_def f) (if blocked s =? 0 then HCbEnter else HTest) (blocked s) :: rest)
         (answers s) (arrs s) (depth s) (stops s) (fates s)
  | HCbEnter =>  (* onSignal(sig) is entered *)
      mk (cbt s) (blocked s) (pending s) (pend_id s) (mpc_ s) (ops s) (set_pc f HCbExit :: rest)
         (answers s) (arrs s) (depth s) (stops s) ((h_id f, FDelivered (h_sig f)) :: fates s)
  | HCbExit =>   (* onSignal returns *)
      match answers s with
      | false :: a =>   (* stop: return without the decrement *)
          mk (cbt s) (blocked s) (pending s) (pend_id s) (mpc_ s) (ops s) rest a (arrs s) (depth s) (stops s + 1) (fates s)
      | _ =>
          mk (cbt s) (blocked s) (pending s) (pend_id s) (mpc_ s) (ops s) (set_pc f HDec :: rest)
             (tl (answers s)) (arrs s) (depth s) (stops s) (fates s)
      end
  | HTest =>     (* pending_ == 0 ? *)
      if pending s =? 0 then
        mk (cbt s) (blocked s) (pending s) (pend_id s) (mpc_ s) (ops s) (set_pc f HWrite :: rest)
           (answers s) (arrs s) (depth s) (stops s) (fates s)
      else
        mk (cbt s) (blocked s) (pending s) (pend_id s) (mpc_ s) (ops s) (set_pc f HDec :: rest)
           (answers s) (arrs s) (depth s) (stops s)
           ((h_id f, if h_def f then FStopLost else FDiscarded) :: fates s)
  | HWrite =>    (* pending_ = sig *)
      mk (cbt s) (blocked s) (h_sig f) (h_id f) (mpc_ s) (ops s) (set_pc f HDec :: rest)
         (answers s) (arrs s) (depth s) (stops s)
         (if pending s =? 0 then fates s else (pend_id s, FOverwritten) :: fates s)
  | HDec =>      (* fetch_and_dec(blocked_); return *)
      mk (cbt s) (blocked s - 1) (pending s) (pend_id s) (mpc_ s) (ops s) rest
         (answers s) (arrs s) (depth s) (stops s) (fates s)
  end.

(* the callback that is running (onSignal has been entered, it has not returned yet) calls blockSignals() itself:
   fetch_and_inc(blocked_).  The callback does not release it: after its return the application holds one block more
   than before the arrival, and a later unblockSignals of the main flow releases it.  This is not a step of [step]:
   like an arrival it is something the environment (the application's callback) decides to do; Proofs.v adds it to
   [reach], Disp.v executes it for the callbacks the case marks (answer code 4). *)
Definition cb_block (s : st) : st :=
  match stack s with
  | f :: _ => match h_pc f with
              | HCbExit => mk (cbt s + 1) (blocked s + 1) (pending s) (pend_id s) (mpc_ s) (ops s) (stack s) (answers s)
                              (arrs s) (depth s + 1) (stops s) (fates s)
              | _ => s
              end
  | [] => s
  end.

(* the main flow is application code: what it does next may be decided on the fly (e.g. release a block that a callback
   took).  [ops] is only the plan of the main flow; replacing the plan at an operation boundary is not a step of the code. *)
Definition set_ops (s : st) (o : list op) : st :=
  mk (cbt s) (blocked s) (pending s) (pend_id s) (mpc_ s) o (stack s) (answers s) (arrs s) (depth s) (stops s) (fates s).

(* unblockSignals after pending_ has been cleared, with pend = p: if (pend && d) processSignal(pend); *)
Definition take (dl : bool) (p : Z) (pid : nat) (s : st) : st :=
  if p =? 0 then
    mk (cbt s) (blocked s) 0 (pend_id s) MOp (ops s) (stack s) (answers s) (arrs s) (depth s) (stops s) (fates s)
  else if dl then
    mk (cbt s) (blocked s) 0 (pend_id s) MOp (ops s) (mkH p pid true HInc 0 :: stack s) (answers s) (arrs s) (depth s) (stops s) (fates s)
  else
    mk (cbt s) (blocked s) 0 (pend_id s) MOp (ops s) (stack s) (answers s) (arrs s) (depth s) (stops s) ((pid, FDropped) :: fates s).

(* one atomic step of the main flow *)
Definition mstep (atomic : bool) (s : st) : st :=
  match mpc_ s with
  | MOp =>
      match ops s with
      | [] => s
      | Block :: o =>
          mk (cbt s) (blocked s + 1) (pending s) (pend_id s) MOp o (stack s) (answers s) (arrs s) (depth s + 1) (stops s) (fates s)
      | Unblock dl :: o =>
          mk (cbt s) (blocked s - 1) (pending s) (pend_id s) (if blocked s =? 1 then MTake dl else MOp) o (stack s)
             (answers s) (arrs s) (depth s - 1) (stops s) (fates s)
      end
  | MTake dl =>
      if atomic then take dl (pending s) (pend_id s) s     (* pend = fetch_and_clear(pending_) *)
      else mk (cbt s) (blocked s) (pending s) (pend_id s) (MClear dl (pending s) (pend_id s)) (ops s) (stack s)
              (answers s) (arrs s) (depth s) (stops s) (fates s)   (* pend = pending_ *)
  | MClear dl p pid =>                                      (* pending_ = 0 *)
      take dl p pid
        (mk (cbt s) (blocked s) (pending s) (pend_id s) (mpc_ s) (ops s) (stack s) (answers s) (arrs s) (depth s) (stops s)
            (if (p =? 0) && negb (pending s =? 0) then (pend_id s, FLost) :: fates s else fates s))
  end.

(* the schedule entry d decides: 0 = the running activation executes its next atomic step, d <> 0 = signal d arrives *)
Definition step (atomic : bool) (d : Z) (s : st) : st :=
  if d =? 0 then
    match stack s with
    | f :: rest => hstep f rest s
    | [] => mstep atomic s
    end
  else arrive d s.

(* ---- observation (what the harness prints at the same points) ---- *)
Definition code (s : st) : Z :=
  match stack s with
  | f :: _ => match h_pc f with HInc => 1 | HCbEnter => 2 | HCbExit => 3 | HTest => 4 | HWrite => 5 | HDec => 6 end
  | [] => match mpc_ s with
          | MOp => match ops s with [] => 0 | Block :: _ => 7 | Unblock _ :: _ => 8 end
          | MTake _ => 9
          | MClear _ _ _ => 10
          end
  end.

Definition answer (s : st) : bool := match answers s with false :: _ => false | _ => true end.

Definition emit (d : Z) (s : st) : list Z :=
  [code s; blocked s; pending s] ++
  (if d =? 0 then
     match stack s with
     | f :: _ => match h_pc f with
                 | HCbEnter => [20; h_sig f]
                 | HCbExit => [21; b2z (answer s)]
                 | _ => []
                 end
     | [] => []
     end
   else [30; d]).

Fixpoint run (atomic : bool) (fuel : nat) (ds : list Z) (s : st) : list Z * st :=
  match fuel with
  | O => ([-1], s)
  | S n =>
      let d := match ds with [] => 0 | d :: _ => d end in
      if (d =? 0) && (code s =? 0) then (emit 0 s, s)
      else let '(o, s') := run atomic n (tl ds) (step atomic d s) in (emit d s ++ o, s')
  end.

(* ---- case decoding:  nops op...  nans ans...  decision... ---- *)
Fixpoint decode_ops (l : list Z) : list op :=
  match l with
  | [] => []
  | x :: r => if (x =? 1) || (x =? 4) then Block :: decode_ops r
              else if x =? 2 then Unblock false :: decode_ops r
              else if x =? 3 then Unblock true :: decode_ops r
              else decode_ops r
  end.

Definition fuel_of (c : list Z) : nat := (8 * length c + 16)%nat.

Definition run_with (atomic : bool) (c : list Z) : list Z * st :=
  match c with
  | [] => run atomic 1 [] (init [] [])
  | n :: r =>
      let o := decode_ops (firstn (Z.to_nat n) r) in
      let r1 := skipn (Z.to_nat n) r in
      let m := Z.to_nat (hd 0 r1) in
      let a := map (fun x => negb (x =? 0)) (firstn m (tl r1)) in
      run atomic (fuel_of c) (skipn m (tl r1)) (init o a)
  end.

Definition run_direct (c : list Z) : list Z := fst (run_with true c).   (* the direct-processSignal cases; Disp.v defines run_case *)
