(* C18 - shutdown(bool) blocks delivery for good.

     void Application::shutdown(bool hasError) {
       fetch_and_inc(blocked_);                      (FCore Block, the LAST operation of the main flow of a run)
       killAlarm();
       if (hasError) { onUnhandledException(); }     (FReport: the error report - an override that returns)
       shutdown(); }

   Once the main flow has executed the increment of its last operation nothing of the flow can release that block any more
   ([shut]): from then on, for every schedule of arrivals and steps - in particular for arrivals INSIDE the error report of
   shutdown(true) -, blocked_ >= 1, no activation enters (or is inside) the callback, no arrival is handed to the callback
   (no new FDelivered), every arrival's increment sends it to the remember / discard path. *)
Require Import V.Lib.Base V.C18.Model V.C18.Disp V.C18.Proofs V.C18.ProofsTok V.C18.ProofsThm V.C18.ProofsRun.
Require Import V.C18.ProofsDisp V.C18.ProofsDispThm.
Local Open Scope Z_scope.

(* the main flow has executed its last operation and holds at least one block, and no callback is running (a callback
   that is running may itself hold blocks it took - cb_block - ; shutdown starts in the main flow, with no activation at all) *)
Definition shut_core (c : st) : Prop :=
  ops c = [] /\ mpc_ c = MOp /\ 1 <= depth c /\ Forall (fun f => in_cb f = false) (stack c).
Definition shut (s : ost) : Prop := shut_core (core s).

Lemma shut_core_arrive x c : shut_core c -> shut_core (arrive x c).
Proof. intros (Ho & Hm & Hd & Hcb). repeat split; try assumption. cbn [arrive stack]. constructor; [reflexivity|exact Hcb]. Qed.

Lemma shut_blocked c : Inv c -> 1 <= depth c -> 1 <= blocked c.
Proof. intros Hi Hd. pose proof (i_cnt c Hi). pose proof (i_stp c Hi). pose proof (nactive_nonneg (stack c)). lia. Qed.

Lemma shut_core_step0 c : Inv c -> shut_core c -> shut_core (step true 0 c).
Proof.
  intros Hi (Ho & Hm & Hd & Hcb). pose proof (shut_blocked c Hi Hd) as Hbl.
  unfold step. cbn [Z.eqb]. destruct (stack c) as [|f rest] eqn:Hs.
  - unfold mstep. rewrite Hm, Ho. repeat split; try assumption. rewrite Hs. constructor.
  - inversion Hcb as [|? ? Hf Hrest]; subst. unfold in_cb in Hf. unfold hstep.
    destruct (h_pc f) eqn:Hpc; try discriminate.
    + assert (Hb : (blocked c =? 0) = false) by (apply Z.eqb_neq; lia). rewrite Hb.
      repeat split; try assumption. cbn [stack]. constructor; [reflexivity|exact Hrest].
    + destruct (pending c =? 0); repeat split; try assumption; cbn [stack]; (constructor; [reflexivity|exact Hrest]).
    + repeat split; try assumption; cbn [stack]; (constructor; [reflexivity|exact Hrest]).
    + repeat split; try assumption.
Qed.

(* no callback is running: nothing can call blockSignals() from inside one *)
Lemma cbb_no_cb c : Forall (fun f => in_cb f = false) (stack c) -> cb_block c = c.
Proof.
  intro H. unfold cb_block. destruct (stack c) as [|f r]; [reflexivity|]. inversion H as [|? ? Hf _]; subst.
  unfold in_cb in Hf. destruct (h_pc f); try reflexivity; discriminate.
Qed.

(* what a step of the OS layer does to the application object: nothing, one atomic step (possibly with the entered
   callback's own blockSignals()), or an arrival *)
Lemma ostep_core d s :
  core (ostep d s) = core s \/ core (ostep d s) = step true 0 (core s) \/ core (ostep d s) = cb_block (step true 0 (core s)) \/
  exists x, core (ostep d s) = arrive x (core s).
Proof.
  unfold ostep. destruct (d =? 0).
  - destruct (hs s) as [|e r].
    + destruct (at_op (core s)).
      * destruct (objstep (reg s)); cbn [core]; auto.
      * cbn [core]. unfold cstep. destruct (cbblock_now (core s) (reg s)); auto.
    + destruct (s_ph e).
      * destruct (inst (reg s)) as [[|n]|]; cbn [core]; eauto.
      * cbn [core]. unfold cstep. destruct (cbblock_now (core s) (reg s)); auto.
      * cbn [core]; auto.
  - destruct (is_sig d); [destruct (dsp s d)|]; cbn [core]; auto.
Qed.

Lemma shut_ostep pre d s : oreach pre s -> shut s -> shut (ostep d s).
Proof.
  unfold shut. intros Hr H. destruct (os_core_reach pre s Hr) as (o & a & Hb & Hc). pose proof (reach_inv o a _ Hb Hc) as Hi.
  pose proof (shut_core_step0 _ Hi H) as H0.
  destruct (ostep_core d s) as [E|[E|[E|[x E]]]]; rewrite E.
  - exact H.
  - exact H0.
  - rewrite cbb_no_cb; [exact H0|]. destruct H0 as (_ & _ & _ & Hcb). exact Hcb.
  - apply shut_core_arrive. exact H.
Qed.

(* the step that executes the increment of the last operation *)
Lemma shut_core_start c : Inv c -> stack c = [] -> mpc_ c = MOp -> ops c = [Block] ->
  shut_core (step true 0 c) /\ blocked (step true 0 c) = blocked c + 1 /\ fates (step true 0 c) = fates c.
Proof.
  intros Hi Hs Hm Ho. unfold step. cbn [Z.eqb]. rewrite Hs. unfold mstep. rewrite Hm, Ho. unfold shut_core. cbn [ops mpc_ depth blocked fates stack].
  pose proof (i_dep c Hi). rewrite Hs. repeat split; try reflexivity; [lia|constructor].
Qed.

(* the arrivals handed to the callback so far *)
Definition is_del (x : nat * fate) : bool := match snd x with FDelivered _ => true | _ => false end.
Definition delivered (c : st) : list (nat * fate) := filter is_del (fates c).

(* a step from such a state hands nothing to the callback *)
Lemma shut_step_no_delivery c : shut_core c ->
  delivered (step true 0 c) = delivered c.
Proof.
  intros (Ho & Hm & Hd & Hcb). unfold delivered, step. cbn [Z.eqb]. destruct (stack c) as [|f rest] eqn:Hs.
  - unfold mstep. rewrite Hm, Ho. reflexivity.
  - inversion Hcb as [|? ? Hf _]; subst. unfold in_cb in Hf. unfold hstep.
    destruct (h_pc f); try discriminate.
    + reflexivity.
    + destruct (pending c =? 0); cbn [fates]; [reflexivity|]. cbn [filter is_del snd]. destruct (h_def f); reflexivity.
    + cbn [fates]. destruct (pending c =? 0); reflexivity.
    + reflexivity.
Qed.

Lemma arrive_delivered x c : delivered (arrive x c) = delivered c.
Proof. reflexivity. Qed.

(* the increment of an arrival finds blocked_ <> 0: on to the remember / discard path, never to the callback *)
Lemma shut_inc_goes_to_test c f rest : Inv c -> shut_core c -> stack c = f :: rest -> h_pc f = HInc ->
  exists f', stack (step true 0 c) = f' :: rest /\ h_pc f' = HTest /\ h_sig f' = h_sig f /\ h_id f' = h_id f.
Proof.
  intros Hi (_ & _ & Hd & _) Hs Hpc. unfold step. cbn [Z.eqb]. rewrite Hs. unfold hstep. rewrite Hpc.
  pose proof (i_cnt c Hi) as Hc. pose proof (i_stp c Hi). pose proof (nactive_nonneg (stack c)).
  assert (Hb : (blocked c =? 0) = false) by (apply Z.eqb_neq; lia).
  rewrite Hb. eexists. split; [reflexivity|]. cbn [h_pc h_sig h_id]. auto.
Qed.

(* ---- every schedule from a state in which shutdown has started ---- *)
Lemma shut_run pre : forall ds s, oreach pre s -> shut s ->
  oreach pre (oexec ds s) /\ shut (oexec ds s) /\ delivered (core (oexec ds s)) = delivered (core s).
Proof.
  induction ds as [|d ds IH]; intros s Hr Hsh; [simpl; auto|].
  cbn [oexec fold_left].
  assert (Hr' : oreach pre (ostep d s)) by (constructor; exact Hr).
  pose proof (shut_ostep pre d s Hr Hsh) as Hsh'.
  destruct (IH (ostep d s) Hr' Hsh') as (A & B & C).
  split; [exact A|]. split; [exact B|]. unfold oexec in C. rewrite C.
  destruct (os_core_reach pre s Hr) as (o & a & Hb & Hc).
  pose proof (shut_core_step0 _ (reach_inv o a _ Hb Hc) Hsh) as (_ & _ & _ & Hcb0).
  destruct (ostep_core d s) as [E|[E|[E|[x E]]]]; rewrite E.
  - reflexivity.
  - apply shut_step_no_delivery. exact Hsh.
  - rewrite (cbb_no_cb _ Hcb0). apply shut_step_no_delivery. exact Hsh.
  - apply arrive_delivered.
Qed.

Theorem shutdown_blocks_for_good pre s ds :
  oreach pre s -> shut s ->
  let s' := oexec ds s in
  oreach pre s' /\ shut s' /\
  1 <= blocked (core s') /\
  Forall (fun f => in_cb f = false) (stack (core s')) /\ cb_enter (core s') = false /\ cb_exit (core s') = false /\
  delivered (core s') = delivered (core s) /\
  (forall f rest, stack (core s') = f :: rest -> h_pc f = HInc ->
     exists f', stack (step true 0 (core s')) = f' :: rest /\ h_pc f' = HTest /\ h_sig f' = h_sig f /\ h_id f' = h_id f).
Proof.
  intros Hr Hsh. cbv zeta. destruct (shut_run pre ds s Hr Hsh) as (A & B & C).
  destruct (os_core_reach pre _ A) as (o & a & Hb & Hc).
  pose proof (reach_inv o a _ Hb Hc) as Hi.
  assert (Hd : 1 <= depth (core (oexec ds s))) by (destruct B as (_ & _ & Hd & _); exact Hd).
  assert (Hcb : Forall (fun f => in_cb f = false) (stack (core (oexec ds s)))) by (destruct B as (_ & _ & _ & Hcb); exact Hcb).
  split; [exact A|]. split; [exact B|].
  split. { pose proof (i_cnt _ Hi). pose proof (i_stp _ Hi). pose proof (nactive_nonneg (stack (core (oexec ds s)))). lia. }
  split; [exact Hcb|].
  split. { unfold cb_enter. destruct (stack (core (oexec ds s))) as [|f r]; [reflexivity|].
           inversion Hcb as [|? ? Hf _]; subst. unfold in_cb in Hf. destruct (h_pc f); try reflexivity; discriminate. }
  split. { unfold cb_exit. destruct (stack (core (oexec ds s))) as [|f r]; [reflexivity|].
           inversion Hcb as [|? ? Hf _]; subst. unfold in_cb in Hf. destruct (h_pc f); try reflexivity; discriminate. }
  split; [exact C|].
  intros f rest Hs Hpc. exact (shut_inc_goes_to_test _ f rest Hi B Hs Hpc).
Qed.

(* ---- how a run gets there: the main-flow step that executes the increment of the LAST core operation (shutdown(false) at the end
   of run(), or shutdown(true) from main()'s catch) ---- *)
Theorem shutdown_starts pre s fl : oreach pre s -> hs s = [] -> at_op (core s) = true ->
  ops (core s) = [Block] -> oflow (reg s) = OCore :: fl ->
  shut (ostep 0 s) /\ blocked (core (ostep 0 s)) = blocked (core s) + 1 /\ fates (core (ostep 0 s)) = fates (core s) /\
  oflow (reg (ostep 0 s)) = fl /\ hs (ostep 0 s) = [] /\ dsp (ostep 0 s) = dsp s.
Proof.
  intros Hr Hh Hat Ho Hf.
  destruct (os_core_reach pre s Hr) as (o & a & Hb & Hc). pose proof (reach_inv o a _ Hb Hc) as Hi.
  assert (Hs : stack (core s) = [] /\ mpc_ (core s) = MOp).
  { unfold at_op in Hat. destruct (stack (core s)); [|discriminate]. destruct (mpc_ (core s)); try discriminate. auto. }
  destruct Hs as [Hs Hm].
  destruct (shut_core_start (core s) Hi Hs Hm Ho) as (A & B & C).
  unfold ostep. cbn [Z.eqb]. rewrite Hh, Hat. unfold objstep. rewrite Hf. cbn [core reg hs dsp pop_flow oflow tl].
  unfold shut. cbn [core]. rewrite Hf. cbn [tl]. repeat split; auto; apply A.
Qed.

(* the error report of shutdown(true): a scheduling point of its own (code 16); its step changes nothing but the flow *)
Theorem error_report_step s fl : hs s = [] -> at_op (core s) = true -> oflow (reg s) = OReport :: fl ->
  ocode s = 16 /\ core (ostep 0 s) = core s /\ dsp (ostep 0 s) = dsp s /\ hs (ostep 0 s) = [] /\
  acc (ostep 0 s) = acc s /\ drp (ostep 0 s) = drp s /\
  oflow (reg (ostep 0 s)) = fl /\ inst (reg (ostep 0 s)) = inst (reg s) /\ alarm_set (reg (ostep 0 s)) = alarm_set (reg s).
Proof.
  intros Hh Hat Hf. unfold ocode, ostep. cbn [Z.eqb]. rewrite Hh, Hat. unfold objstep, objdsp. rewrite Hf.
  cbn [core dsp hs acc drp reg oflow inst alarm_set]. repeat split; reflexivity.
Qed.

(* from the start of shutdown(true | false) to the end of the run: for every schedule no callback entry, nothing handed to the callback *)
Theorem no_callback_from_shutdown pre s fl ds : oreach pre s -> hs s = [] -> at_op (core s) = true ->
  ops (core s) = [Block] -> oflow (reg s) = OCore :: fl ->
  let s' := oexec (0 :: ds) s in
  oreach pre s' /\ 1 <= depth (core s') /\ 1 <= blocked (core s') /\
  Forall (fun f => in_cb f = false) (stack (core s')) /\ cb_enter (core s') = false /\ cb_exit (core s') = false /\
  delivered (core s') = delivered (core s).
Proof.
  intros Hr Hh Hat Ho Hf. cbv zeta. cbn [oexec fold_left].
  destruct (shutdown_starts pre s fl Hr Hh Hat Ho Hf) as (A & _ & C & _).
  destruct (shutdown_blocks_for_good pre (ostep 0 s) ds (oreach_step pre s 0 Hr) A) as (R & (_ & _ & D & _) & B & F & E1 & E2 & Dl & _).
  split; [exact R|]. split; [exact D|]. split; [exact B|]. split; [exact F|]. split; [exact E1|]. split; [exact E2|].
  unfold oexec in Dl. rewrite Dl. unfold delivered. rewrite C. reflexivity.
Qed.
