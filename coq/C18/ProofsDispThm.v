(* C18 - property statements about the OS-level entry point, derived from OInv (ProofsDisp.v), and the facts about the
   trace producer [orun] (stays inside [oreach], never runs out of fuel). *)
Require Import V.Lib.Base V.C18.Model V.C18.Disp V.C18.Proofs V.C18.ProofsTok V.C18.ProofsThm V.C18.ProofsRun V.C18.ProofsDisp.
Local Open Scope Z_scope.
Local Arguments Z.add : simpl never.
Local Arguments Z.sub : simpl never.

(* ------------------------------------------------------------------------------------------- *)
(* dispositions = handlers in progress                                                          *)
(* ------------------------------------------------------------------------------------------- *)
Theorem os_dispositions pre s x : oreach pre s -> is_reg x = true ->
  (dsp s x = DIgnore <-> pre x = true \/ In x (busy (hs s))) /\
  (dsp s x = DHandler <-> pre x = false /\ ~ In x (busy (hs s))) /\
  dsp s x <> DDefault.
Proof.
  intros Hr Hx. destruct (oreach_inv _ _ Hr) as [_ _ _ Hd _]. rewrite (Hd x Hx).
  destruct (pre x) eqn:Hp; simpl.
  - repeat split; try discriminate; auto. intros [H _]. discriminate.
  - destruct (mem x (busy (hs s))) eqn:Hm.
    + apply mem_In in Hm. repeat split; try discriminate; auto. intros [_ H]. contradiction.
    + apply mem_false in Hm. repeat split; try discriminate; auto. intros [H|H]; [discriminate|contradiction].
Qed.

Lemma running_busy h x : In x (running h) -> In x (busy h).
Proof.
  unfold running, busy. intro H. apply in_map_iff in H. destruct H as [e [He Hin]]. apply filter_In in Hin.
  apply in_map_iff. exists e. split; [tauto|]. apply filter_In. split; [tauto|].
  destruct Hin as [_ Hin]. unfold is_run in Hin. unfold is_enter. destruct (s_ph e); try discriminate; reflexivity.
Qed.

Theorem os_handlers pre s : oreach pre s ->
  NoDup (filter is_reg (busy (hs s))) /\
  map h_sig (nondef (stack (core s))) = running (hs s) /\
  (forall x, In x (running (hs s)) -> In x (busy (hs s))) /\
  (forall x, In x (map s_sig (hs s)) -> x = alarm_sig \/ (is_reg x = true /\ pre x = false)).
Proof.
  intro Hr. destruct (oreach_inv _ _ Hr) as [_ Hl Hh _ _]. repeat split.
  - eapply hs_ok_nodup; eassumption.
  - exact Hl.
  - intro x. apply running_busy.
  - intros x Hx. eapply hs_ok_in; eassumption.
Qed.

Theorem os_quiescent pre s x : oreach pre s -> is_reg x = true -> pre x = false -> hs s = [] -> dsp s x = DHandler.
Proof.
  intros Hr Hx Hp Hh. apply (os_dispositions pre s x Hr Hx). split; [exact Hp|]. rewrite Hh. simpl. auto.
Qed.

(* ------------------------------------------------------------------------------------------- *)
(* what the OS does with an arrival                                                             *)
(* ------------------------------------------------------------------------------------------- *)
Lemma ostep_enter s x r : hs s = mkS x PEnter :: r -> inst (reg s) = Some O ->
  ostep 0 s = mkO (arrive x (core s)) (upd (dsp s) x DIgnore) (mkS x PRun :: r) (acc s) (drp s) (reg s).
Proof. intros H Hi. unfold ostep. simpl. rewrite H. simpl. rewrite Hi. reflexivity. Qed.

Lemma ostep_run_keep s x r : hs s = mkS x PRun :: r ->
  length (stack (cstep (core s) (reg s))) = length (stack (core s)) ->
  ostep 0 s = mkO (cstep (core s) (reg s)) (cb_dsp (core s) (reg s) (dsp s)) (hs s) (acc s) (drp s) (cb_reg (core s) (reg s)).
Proof. intros H Hl. unfold ostep. simpl. rewrite H. simpl. rewrite Hl, Nat.ltb_irrefl. reflexivity. Qed.

Theorem os_arrival pre s d : oreach pre s -> is_reg d = true -> pre d = false ->
  (In d (busy (hs s)) -> ostep d s = mkO (core s) (dsp s) (hs s) (acc s) (drp s ++ [d]) (reg s)) /\
  (~ In d (busy (hs s)) ->
     ostep d s = mkO (core s) (dsp s) (mkS d PEnter :: hs s) (acc s ++ [d]) (drp s) (reg s) /\
     let s2 := ostep 0 (ostep d s) in
     core s2 = arrive d (core s) /\ hs s2 = mkS d PRun :: hs s /\ dsp s2 d = DIgnore /\ drp s2 = drp s).
Proof.
  intros Hr Hreg Hp. pose proof (is_reg_nz _ Hreg) as Hnz.
  pose proof (o_inst _ _ (oreach_inv _ _ Hr)) as Hin.
  assert (Hsig : is_sig d = true) by (unfold is_sig; rewrite Hreg; reflexivity).
  destruct (os_dispositions pre s d Hr Hreg) as [Hi [Hh _]].
  split; intro Hb.
  - unfold ostep. destruct (Z.eqb_spec d 0); [contradiction|]. rewrite Hsig.
    rewrite (proj2 Hi (or_intror Hb)). reflexivity.
  - assert (E : ostep d s = mkO (core s) (dsp s) (mkS d PEnter :: hs s) (acc s ++ [d]) (drp s) (reg s)).
    { unfold ostep. destruct (Z.eqb_spec d 0); [contradiction|]. rewrite Hsig.
      rewrite (proj2 Hh (conj Hp Hb)). reflexivity. }
    split; [exact E|]. rewrite E. cbv zeta. rewrite (ostep_enter _ d (hs s)) by (try reflexivity; exact Hin). simpl.
    repeat split; auto. unfold upd. rewrite Z.eqb_refl. reflexivity.
Qed.

Theorem os_dropped_only_if pre s d : oreach pre s -> drp (ostep d s) <> drp s ->
  d <> 0 /\
  ((is_reg d = true /\ (pre d = true \/ In d (busy (hs s)))) \/
   (d = alarm_sig /\ ((alarm_set (reg s) = false /\ pre alarm_sig = true) \/ In alarm_sig (busy (hs s))))) /\
  ostep d s = mkO (core s) (dsp s) (hs s) (acc s) (drp s ++ [d]) (reg s).
Proof.
  intros Hr Hne. unfold ostep in *. destruct (Z.eqb_spec d 0) as [Hd|Hd].
  - exfalso. apply Hne. destruct (hs s) as [|e r].
    + destruct (at_op (core s)); [destruct (objstep (reg s))|]; reflexivity.
    + destruct (s_ph e); try reflexivity. destruct (inst (reg s)) as [[|?]|]; reflexivity.
  - destruct (is_sig d) eqn:Hsig; [|contradiction].
    destruct (dsp s d) eqn:Hds; try contradiction.
    repeat split; auto. destruct (is_sig_cases _ Hsig) as [H4|Hreg].
    + right. split; [exact H4|]. subst d. destruct (oreach_inv _ _ Hr) as [_ _ _ _ _ _ _ _ Hal Hna].
      destruct (alarm_set (reg s)) eqn:Has.
      * right. destruct (in_dec Z.eq_dec alarm_sig (busy (hs s))) as [Hi|Hi]; [exact Hi|].
        rewrite (Hal eq_refl Hi) in Hds. discriminate.
      * left. split; [reflexivity|]. destruct (Hna eq_refl) as [H1 _]. rewrite H1 in Hds. unfold boot in Hds.
        destruct (pre alarm_sig); [reflexivity|discriminate].
    + left. split; [exact Hreg|]. apply (os_dispositions pre s d Hr Hreg). exact Hds.
Qed.

(* ------------------------------------------------------------------------------------------- *)
(* every accepted arrival is an arrival of the application object: the core theorems apply        *)
(* ------------------------------------------------------------------------------------------- *)
Theorem os_core_reach pre s : oreach pre s -> exists o a, bal 0 o = true /\ reach o a (core s).
Proof. intro Hr. destruct (oreach_inv _ _ Hr) as [H _ _ _ _]. exact H. Qed.

Theorem os_exactly_once pre s : oreach pre s ->
  (forall x, count_eq x (acc s) = count_eq x (arrs (core s)) + count_eq x (entering (hs s))) /\
  (forall i, cnt_stack i (stack (core s)) + cnt_slot i (core s) + cnt_fates i (fates (core s))
             = (if (i <? length (arrs (core s)))%nat then 1 else 0)) /\
  NoDup (map fst (fates (core s))) /\
  (forall i, ~ In (i, FLost) (fates (core s))) /\
  (forall i, In (i, FStopLost) (fates (core s)) -> 0 < stops (core s) + cbt (core s)) /\
  (forall i x, In (i, FDelivered x) (fates (core s)) -> nth_error (arrs (core s)) i = Some x).
Proof.
  intro Hr. destruct (oreach_inv _ _ Hr) as [[o [a [Hb Hc]]] _ _ _ Ha].
  split; [exact Ha|]. split; [|split; [|split; [|split]]].
  - intro i. exact (one_place o a (core s) i Hb Hc).
  - exact (never_twice o a (core s) Hb Hc).
  - intro i. exact (proj1 (never_lost o a (core s) i Hb Hc)).
  - intro i. exact (proj2 (never_lost o a (core s) i Hb Hc)).
  - intros i x. exact (delivered_number o a (core s) i x Hb Hc).
Qed.

(* an arrival whose handler is installed and that finds blocked_ = 0 is in the callback after the three steps of its
   own activation (signal(SIG_IGN) + call, fetch_and_inc, callback entry) *)
Theorem os_immediate s d : d <> 0 -> is_sig d = true -> dsp s d = DHandler -> inst (reg s) = Some O -> blocked (core s) = 0 ->
  let s4 := oexec [d; 0; 0; 0] s in
  fates (core s4) = (length (arrs (core s)), FDelivered d) :: fates (core s) /\
  arrs (core s4) = arrs (core s) ++ [d] /\
  stack (core s4) = mkH d (length (arrs (core s))) false HCbExit 0 :: stack (core s) /\
  blocked (core s4) = (if hd false (tl (rearm (reg s))) then 2 else 1) /\   (* 2: the entered callback has called blockSignals() itself *)
  hs s4 = mkS d PRun :: hs s /\
  dsp s4 d = (if (d =? alarm_sig) && hd false (rearm (reg s)) then DHandler else DIgnore) /\
  drp s4 = drp s /\ acc s4 = acc s ++ [d].
Proof.
  intros Hnz Hreg Hd Hin Hb. cbv zeta. unfold oexec. cbn [fold_left].
  assert (E1 : ostep d s = mkO (core s) (dsp s) (mkS d PEnter :: hs s) (acc s ++ [d]) (drp s) (reg s)).
  { unfold ostep. destruct (Z.eqb_spec d 0); [contradiction|]. rewrite Hreg, Hd. reflexivity. }
  rewrite E1. clear E1.
  set (c := core s) in *.
  set (s1 := mkO c (dsp s) (mkS d PEnter :: hs s) (acc s ++ [d]) (drp s) (reg s)).
  set (s2 := mkO (arrive d c) (upd (dsp s) d DIgnore) (mkS d PRun :: hs s) (acc s ++ [d]) (drp s) (reg s)).
  assert (E2 : ostep 0 s1 = s2) by (apply (ostep_enter s1 d (hs s)); [reflexivity|exact Hin]).
  rewrite E2. clear E2.
  set (c3 := mk (cbt c) (0 + 1) (pending c) (pend_id c) (mpc_ c) (ops c)
                (mkH d (length (arrs c)) false HCbEnter 0 :: stack c) (answers c) (arrs c ++ [d]) (depth c) (stops c) (fates c)).
  assert (E3 : step true 0 (arrive d c) = c3).
  { unfold step, arrive, hstep. simpl. rewrite Hb. reflexivity. }
  set (r3 := cb_reg (arrive d c) (reg s)).
  set (s3 := mkO c3 (upd (dsp s) d DIgnore) (mkS d PRun :: hs s) (acc s ++ [d]) (drp s) r3).
  assert (E4 : ostep 0 s2 = s3).
  { assert (C2 : cstep (arrive d c) (reg s) = c3).
    { unfold cstep. replace (cbblock_now (arrive d c) (reg s)) with false by reflexivity. exact E3. }
    rewrite (ostep_run_keep s2 d (hs s)); [|reflexivity|cbn [core s2 reg]; rewrite C2; reflexivity].
    cbn [core s2 dsp reg]. rewrite C2. reflexivity. }
  rewrite E4. clear E4.
  assert (C3 : cbblock_now c3 r3 = hd false (tl (rearm (reg s)))) by reflexivity.
  rewrite (ostep_run_keep s3 d (hs s)); [|reflexivity|unfold cstep; destruct (cbblock_now (core s3) (reg s3)); rewrite ?stack_cbb; reflexivity].
  unfold cstep. cbn [core reg s3]. rewrite C3.
  destruct (hd false (tl (rearm (reg s)))); cbn [core dsp hs acc drp s3]; cbn; (repeat split; auto);
    unfold cb_dsp, rearm_now, r3, cb_reg; cbn; unfold upd;
    (destruct (hd false (rearm (reg s))); cbn;
     [destruct (Z.eqb_spec d alarm_sig) as [->|Hne]; cbn; [reflexivity|]; rewrite Z.eqb_refl; reflexivity
     |rewrite andb_false_r; rewrite Z.eqb_refl; reflexivity]).
Qed.

(* "later signals are still handled": whenever no handler for d is in progress (and the environment did not have d ignored),
   an arrival of d is not discarded; if blocked_ = 0 it is in the callback after its own three steps *)
Theorem os_later_signal_handled pre s d :
  oreach pre s -> is_reg d = true -> pre d = false -> ~ In d (busy (hs s)) -> blocked (core s) = 0 ->
  let s4 := oexec [d; 0; 0; 0] s in
  In (length (arrs (core s)), FDelivered d) (fates (core s4)) /\ drp s4 = drp s /\ acc s4 = acc s ++ [d] /\ oreach pre s4.
Proof.
  intros Hr Hreg Hp Hb Hbl. cbv zeta.
  assert (Hd : dsp s d = DHandler) by (apply (os_dispositions pre s d Hr Hreg); auto).
  assert (Hsig : is_sig d = true) by (unfold is_sig; rewrite Hreg; reflexivity).
  destruct (os_immediate s d (is_reg_nz _ Hreg) Hsig Hd (o_inst _ _ (oreach_inv _ _ Hr)) Hbl) as [H1 [_ [_ [_ [_ [_ [H2 H3]]]]]]].
  repeat split; auto.
  - rewrite H1. left. reflexivity.
  - apply oreach_oexec. exact Hr.
Qed.

(* the activations below the one that runs are not touched by a step or an arrival *)
Theorem os_below_stable d s e r : hs s = e :: r -> exists top, hs (ostep d s) = top ++ r /\ (length top <= 2)%nat.
Proof.
  intro H. unfold ostep. destruct (d =? 0).
  - rewrite H. destruct (s_ph e); cbn [hs].
    + destruct (inst (reg s)) as [[|?]|]; cbn [hs].
      * exists [mkS (s_sig e) PRun]. split; [reflexivity|simpl; lia].
      * exists []. split; [reflexivity|simpl; lia].
      * exists []. split; [reflexivity|simpl; lia].
    + destruct (length (stack (cstep (core s) (reg s))) <? length (stack (core s)))%nat.
      * exists [mkS (s_sig e) PExit]. split; [reflexivity|simpl; lia].
      * exists [e]. split; [reflexivity|simpl; lia].
    + exists []. split; [reflexivity|simpl; lia].
  - destruct (is_sig d); [|exists [e]; split; [exact H|simpl; lia]].
    destruct (dsp s d); cbn [hs]; rewrite ?H.
    + exists [e]. split; [reflexivity|simpl; lia].
    + exists [mkS d PEnter; e]. split; [reflexivity|simpl; lia].
    + exists [e]. split; [reflexivity|simpl; lia].
Qed.

(* ------------------------------------------------------------------------------------------- *)
(* the trace producer                                                                           *)
(* ------------------------------------------------------------------------------------------- *)
Lemma settle_reach pre s : oreach pre s -> oreach pre (settle s).
Proof.
  intro H. unfold settle. destruct (hs s) as [|e r]; [exact H|]. destruct (s_ph e); try exact H; constructor; exact H.
Qed.

Theorem orun_reach pre n : forall ds s, oreach pre s -> oreach pre (snd (orun n ds s)).
Proof.
  induction n as [|n IH]; intros ds s Hr; [exact Hr|].
  change (orun (S n) ds s) with
    (let d := match ds with [] => 0 | d :: _ => d end in
     if (d =? 0) && (ocode s =? 0) then (oemit 0 s, s)
     else let '(o, s') := orun n (tl ds) (settle (ostep d s)) in (oemit d s ++ o, s')).
  cbv zeta.
  destruct ((match ds with [] => 0 | d :: _ => d end =? 0) && (ocode s =? 0)); [exact Hr|].
  specialize (IH (tl ds) (settle (ostep match ds with [] => 0 | d :: _ => d end s))
                 (settle_reach _ _ (oreach_step _ _ _ Hr))).
  destruct (orun n (tl ds) (settle (ostep match ds with [] => 0 | d :: _ => d end s))). exact IH.
Qed.

Definition wph (p : phase) : nat := match p with PEnter => 7 | PRun => 1 | PExit => 1 end.
Fixpoint whs (h : list sframe) : nat := match h with [] => O | e :: r => (wph (s_ph e) + whs r)%nat end.
Definition omeasure (s : ost) : nat := (measure (core s) + whs (hs s) + length (oflow (reg s)))%nat.

Lemma arrive_measure' x c : measure (arrive x c) = (measure c + 5)%nat.
Proof. unfold measure, arrive. simpl. lia. Qed.

Lemma step0_le c : (measure (step true 0 c) <= measure c)%nat.
Proof.
  destruct (Z.eqb_spec (code c) 0) as [H|H].
  - unfold code in H. unfold step. simpl. destruct (stack c) as [|f rest].
    + unfold mstep. destruct (mpc_ c); try discriminate. destruct (ops c) as [|[|] ?]; try discriminate. lia.
    + destruct (h_pc f); discriminate.
  - pose proof (step_decreases true c H). lia.
Qed.

Lemma measure_cbb c : measure (cb_block c) = measure c.
Proof.
  unfold cb_block. destruct (stack c) as [|f r] eqn:E; [reflexivity|]. destruct (h_pc f); try reflexivity.
  unfold measure. cbn [stack mpc_ ops]. rewrite E. reflexivity.
Qed.
Lemma cstep_decreases c r : code c <> 0 -> (measure (cstep c r) < measure c)%nat.
Proof.
  intro H. unfold cstep. destruct (cbblock_now c r); rewrite ?measure_cbb; apply step_decreases; exact H.
Qed.

Lemma objstep_flow r r' : objstep r = Some r' -> (length (oflow r') < length (oflow r))%nat.
Proof.
  unfold objstep. destruct (oflow r) as [|[| | | | | |] f]; try discriminate; intro H; inversion H; subst; clear H; simpl; try lia.
  destruct (live r); simpl; lia.
Qed.

Lemma objstep_none r : objstep r = None -> oflow r = [] \/ exists f, oflow r = OCore :: f.
Proof.
  unfold objstep. destruct (oflow r) as [|[| | | | | |] f]; try discriminate; intros _; [left; reflexivity|right; eauto].
Qed.

Lemma ostep0_decreases s : ocode s <> 0 -> (omeasure (ostep 0 s) < omeasure s)%nat.
Proof.
  intro H. unfold omeasure, ostep, ocode in *. cbn [Z.eqb]. destruct (hs s) as [|e r].
  - destruct (at_op (core s)) eqn:Hat.
    + destruct (objstep (reg s)) as [r'|] eqn:Ho; cbn [core hs whs reg].
      * pose proof (objstep_flow _ _ Ho). lia.
      * pose proof (step0_le (core s)). unfold pop_flow. cbn [oflow].
        destruct (objstep_none _ Ho) as [Hf|[f Hf]]; rewrite Hf in *; cbn [tl length].
        -- pose proof (step_decreases true (core s) H). lia.
        -- lia.
    + cbn [core hs whs reg cb_reg oflow]. pose proof (cstep_decreases (core s) (reg s) H). lia.
  - destruct (s_ph e) eqn:Hp; cbn [core hs whs wph s_ph]; rewrite ?Hp; cbn [wph].
    + destruct (inst (reg s)) as [[|?]|]; cbn [core hs whs wph s_ph reg set_fault oflow]; [rewrite arrive_measure'|..]; lia.
    + pose proof (cstep_decreases (core s) (reg s) H).
      destruct (length (stack (cstep (core s) (reg s))) <? length (stack (core s)))%nat; cbn [whs wph s_ph reg cb_reg oflow]; rewrite ?Hp; cbn [wph]; lia.
    + cbn [reg]. lia.
Qed.

Lemma settle_le s : (omeasure (settle s) <= omeasure s)%nat.
Proof.
  unfold settle. destruct (hs s) as [|e r] eqn:Hh; [lia|].
  destruct (s_ph e) eqn:Hp; try lia; unfold omeasure, ostep; cbn [Z.eqb]; rewrite Hh, Hp.
  - destruct (inst (reg s)) as [[|?]|]; cbn [core hs whs wph s_ph reg set_fault oflow]; rewrite ?Hp; cbn [wph]; [rewrite arrive_measure'|..]; lia.
  - cbn [core hs whs wph s_ph reg]; rewrite ?Hp; cbn [wph]. lia.
Qed.

Lemma ostep_arrival_le d s : d <> 0 -> (omeasure (ostep d s) <= omeasure s + 7)%nat.
Proof.
  intro Hd. unfold ostep. destruct (Z.eqb_spec d 0); [contradiction|].
  destruct (is_sig d); [|lia]. destruct (dsp s d); unfold omeasure; cbn [core hs whs wph s_ph reg]; lia.
Qed.

Theorem ofuel_sufficient n : forall ds s,
  (omeasure s + 8 * length ds < n)%nat -> orun (S n) ds s = orun n ds s.
Proof.
  induction n as [|n IH]; intros ds s H; [lia|].
  change (orun (S (S n)) ds s) with
    (let d := match ds with [] => 0 | d :: _ => d end in
     if (d =? 0) && (ocode s =? 0) then (oemit 0 s, s)
     else let '(o, s') := orun (S n) (tl ds) (settle (ostep d s)) in (oemit d s ++ o, s')).
  change (orun (S n) ds s) with
    (let d := match ds with [] => 0 | d :: _ => d end in
     if (d =? 0) && (ocode s =? 0) then (oemit 0 s, s)
     else let '(o, s') := orun n (tl ds) (settle (ostep d s)) in (oemit d s ++ o, s')).
  cbv zeta.
  destruct ((match ds with [] => 0 | d :: _ => d end =? 0) && (ocode s =? 0)) eqn:E; [reflexivity|].
  rewrite IH; [reflexivity|].
  apply andb_false_iff in E.
  destruct ds as [|d ds']; simpl in *.
  - destruct E as [E|E]; [discriminate|]. apply Z.eqb_neq in E.
    pose proof (ostep0_decreases s E). pose proof (settle_le (ostep 0 s)). lia.
  - destruct (Z.eqb_spec d 0) as [Hd|Hd].
    + subst d. destruct E as [E|E]; [discriminate|]. apply Z.eqb_neq in E.
      pose proof (ostep0_decreases s E). pose proof (settle_le (ostep 0 s)). lia.
    + pose proof (ostep_arrival_le d s Hd). pose proof (settle_le (ostep d s)). lia.
Qed.

(* op 10 (shutdown(true)) contributes two steps - the increment and the error report - and ends the flow *)
Lemma decode_fops_length l : (length (core_of (decode_fops l)) <= length l)%nat /\ (length (shape_of (decode_fops l)) <= length l + 1)%nat.
Proof.
  induction l as [|x r [IH1 IH2]]; simpl; [lia|].
  destruct ((x =? 1) || (x =? 4)); simpl; [lia|]. destruct (x =? 2); simpl; [lia|]. destruct (x =? 3); simpl; [lia|].
  destruct (x =? 5); simpl; [lia|]. destruct (x =? 6); simpl; [lia|]. destruct (x =? 7); simpl; [lia|]. destruct (x =? 8); simpl; [lia|]. destruct (x =? 9); simpl; [lia|].
  destruct (x =? 10); simpl; lia.
Qed.

(* the fuel handed out by orun_with is enough for every run of every case *)
Theorem orun_with_fuel m mask n r tlim dsp0 r0 a ra (ds : list Z) :
  let c := m :: mask :: n :: r in
  let f := decode_fops (firstn (Z.to_nat n) r) in
  let r1 := skipn (Z.to_nat n) r in
  let k := Z.to_nat (hd 0 r1) in
  let r2 := skipn k (tl r1) in
  (length ds <= length r2)%nat ->
  (omeasure (os_main tlim dsp0 r0 f a ra) + 8 * length ds < ofuel_of c)%nat.
Proof.
  cbv zeta. intro Hl. unfold omeasure, measure, ofuel_of, os_main, init. simpl.
  destruct (decode_fops_length (firstn (Z.to_nat n) r)) as [H1 H1'].
  pose proof (firstn_le_length (Z.to_nat n) r) as H2.
  pose proof (firstn_skipn (Z.to_nat n) r) as H3. apply (f_equal (@length Z)) in H3. rewrite app_length in H3.
  set (r1 := skipn (Z.to_nat n) r) in *.
  assert (H4 : (length (skipn (Z.to_nat (hd 0%Z r1)) (tl r1)) <= length r1)%nat).
  { rewrite skipn_length. destruct r1; simpl; lia. }
  lia.
Qed.

(* ------------------------------------------------------------------------------------------- *)
(* which object is registered                                                                   *)
(* ------------------------------------------------------------------------------------------- *)
(* while main() of object 0 runs (any run, any flow with construct / destroy / copy-and-drop of other objects, any
   schedule) instance_s is object 0, no other live object is object 0, and sigHandler never called processSignal
   through anything else *)
Theorem os_registered pre s : oreach pre s ->
  inst (reg s) = Some O /\ fault (reg s) = false /\ Forall (fun b => b <> O) (live (reg s)).
Proof.
  intro Hr. destruct (oreach_inv _ _ Hr) as [_ _ _ _ _ Hi [Hl _] Hf]. auto.
Qed.

(* the main-flow operations on other objects leave the registration and the application object alone *)
Theorem os_other_objects pre s r' : oreach pre s -> hs s = [] -> at_op (core s) = true -> objstep (reg s) = Some r' ->
  ostep 0 s = mkO (core s) (objdsp (reg s) (dsp s)) [] (acc s) (drp s) r' /\ inst r' = Some O.
Proof.
  intros Hr Hh Ha Ho. split.
  - unfold ostep. simpl. rewrite Hh, Ha, Ho. reflexivity.
  - pose proof (oreach_inv _ _ (oreach_step _ _ 0 Hr)) as [_ _ _ _ _ Hi _ _].
    unfold ostep in Hi. simpl in Hi. rewrite Hh, Ha, Ho in Hi. exact Hi.
Qed.

(* after the destruction of object 0 nothing is registered *)
Theorem os_destroyed pre s : oreach pre s -> inst (reg (os_destroy s)) = None.
Proof.
  intro Hr. destruct (os_registered pre s Hr) as [Hi _]. unfold os_destroy. simpl. rewrite Hi. reflexivity.
Qed.

(* ------------------------------------------------------------------------------------------- *)
(* SIGALRM: setAlarm / the time limit of main() / callbacks that re-arm the alarm                 *)
(* ------------------------------------------------------------------------------------------- *)
(* once setAlarm(n > 0) has been executed (by main() for a time limit, by the main flow, or by a callback) and no handler
   activation for SIGALRM is in progress, its handler is installed - also if the environment had SIGALRM ignored *)
Theorem os_alarm_installed pre s : oreach pre s ->
  alarm_set (reg s) = true -> ~ In alarm_sig (busy (hs s)) -> dsp s alarm_sig = DHandler.
Proof. intro Hr. exact (o_alarm _ _ (oreach_inv _ _ Hr)). Qed.

(* before that the disposition is what the environment left, and no SIGALRM activation exists *)
Theorem os_alarm_unset pre s : oreach pre s -> alarm_set (reg s) = false ->
  dsp s alarm_sig = boot pre alarm_sig /\ ~ In alarm_sig (map s_sig (hs s)).
Proof. intro Hr. exact (o_noalarm _ _ (oreach_inv _ _ Hr)). Qed.

(* setAlarm(n > 0) executed by the main flow: whatever the disposition was (ignored by the environment, ignored by a
   ScopedSig in progress), afterwards it is the handler; nothing else changes *)
Theorem os_setalarm_step s fl : hs s = [] -> at_op (core s) = true -> oflow (reg s) = OSetAlarm :: fl ->
  dsp (ostep 0 s) alarm_sig = DHandler /\ alarm_set (reg (ostep 0 s)) = true /\ core (ostep 0 s) = core s /\
  hs (ostep 0 s) = [] /\ (forall y, y <> alarm_sig -> dsp (ostep 0 s) y = dsp s y).
Proof.
  intros Hh Ha Hf. unfold ostep. simpl. rewrite Hh, Ha. unfold objstep, objdsp. rewrite Hf. simpl.
  repeat split. intros y Hy. unfold upd. destruct (Z.eqb_spec y alarm_sig); [contradiction|reflexivity].
Qed.

(* main() with a time limit *)
Theorem os_main_timelimit d r f a ra :
  dsp (os_main true d r f a ra) alarm_sig = DHandler /\ alarm_set (reg (os_main true d r f a ra)) = true.
Proof. split; reflexivity. Qed.

(* a callback that re-arms the alarm: the step that enters it installs the handler for SIGALRM - also when the callback
   runs inside a SIGALRM activation whose ScopedSig has set SIG_IGN *)
Theorem os_rearm_step s :
  match hs s with [] => True | e :: _ => s_ph e = PRun end ->
  cb_enter (core s) = true -> hd false (rearm (reg s)) = true ->
  dsp (ostep 0 s) alarm_sig = DHandler /\ alarm_set (reg (ostep 0 s)) = true /\ core (ostep 0 s) = cstep (core s) (reg s).
Proof.
  intros Hh Hc Hr.
  assert (Hat : at_op (core s) = false).
  { unfold at_op. unfold cb_enter in Hc. destruct (stack (core s)); [discriminate|reflexivity]. }
  assert (Hn : rearm_now (core s) (reg s) = true) by (unfold rearm_now; rewrite Hc, Hr; reflexivity).
  unfold ostep. simpl. destruct (hs s) as [|e r].
  - rewrite Hat. simpl. unfold cb_dsp. rewrite Hn. simpl. repeat split; try (unfold upd; rewrite Z.eqb_refl; reflexivity).
  - rewrite Hh. simpl. unfold cb_dsp. rewrite Hn. simpl. repeat split; try (unfold upd; rewrite Z.eqb_refl; reflexivity).
Qed.

(* whenever the handler of a signal number (registered or SIGALRM) is installed, an arrival starts sigHandler and its next
   step is processSignal on the running object - in particular an alarm that expires after a callback re-armed it, even
   while that callback (of an earlier SIGALRM) is still running *)
Theorem os_handler_arrival pre s d : oreach pre s -> is_sig d = true -> dsp s d = DHandler ->
  ostep d s = mkO (core s) (dsp s) (mkS d PEnter :: hs s) (acc s ++ [d]) (drp s) (reg s) /\
  let s2 := ostep 0 (ostep d s) in
  core s2 = arrive d (core s) /\ hs s2 = mkS d PRun :: hs s /\ dsp s2 d = DIgnore /\ drp s2 = drp s.
Proof.
  intros Hr Hsig Hd. pose proof (is_sig_nz _ Hsig) as Hnz.
  pose proof (o_inst _ _ (oreach_inv _ _ Hr)) as Hin.
  assert (E : ostep d s = mkO (core s) (dsp s) (mkS d PEnter :: hs s) (acc s ++ [d]) (drp s) (reg s)).
  { unfold ostep. destruct (Z.eqb_spec d 0); [contradiction|]. rewrite Hsig, Hd. reflexivity. }
  split; [exact E|]. rewrite E. cbv zeta. rewrite (ostep_enter _ d (hs s)) by (try reflexivity; exact Hin). simpl.
  repeat split; auto. unfold upd. rewrite Z.eqb_refl. reflexivity.
Qed.

(* an expiring alarm reaches processSignal *)
Theorem os_alarm_arrival pre s : oreach pre s -> alarm_set (reg s) = true -> ~ In alarm_sig (busy (hs s)) ->
  ostep alarm_sig s = mkO (core s) (dsp s) (mkS alarm_sig PEnter :: hs s) (acc s ++ [alarm_sig]) (drp s) (reg s) /\
  let s2 := ostep 0 (ostep alarm_sig s) in
  core s2 = arrive alarm_sig (core s) /\ hs s2 = mkS alarm_sig PRun :: hs s /\ drp s2 = drp s.
Proof.
  intros Hr Ha Hb.
  destruct (os_handler_arrival pre s alarm_sig Hr eq_refl (os_alarm_installed pre s Hr Ha Hb)) as [H1 [H2 [H3 [_ H4]]]].
  auto.
Qed.

(* ... and with blocked_ = 0 it is in the callback after its own three steps *)
Theorem os_alarm_handled pre s : oreach pre s -> alarm_set (reg s) = true -> ~ In alarm_sig (busy (hs s)) ->
  blocked (core s) = 0 ->
  let s4 := oexec [alarm_sig; 0; 0; 0] s in
  In (length (arrs (core s)), FDelivered alarm_sig) (fates (core s4)) /\ drp s4 = drp s /\ oreach pre s4.
Proof.
  intros Hr Ha Hb Hbl. cbv zeta.
  destruct (os_immediate s alarm_sig ltac:(discriminate) eq_refl (os_alarm_installed pre s Hr Ha Hb)
              (o_inst _ _ (oreach_inv _ _ Hr)) Hbl) as [H1 [_ [_ [_ [_ [_ [H2 _]]]]]]].
  repeat split; auto.
  - rewrite H1. left. reflexivity.
  - apply oreach_oexec. exact Hr.
Qed.
