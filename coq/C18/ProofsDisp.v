(* C18 - the OS-level layer (Disp.v): dispositions follow the sigHandler activations in progress; an arrival is
   discarded by the OS only while a handler for the same number is in progress (or the environment had it ignored);
   every other arrival reaches processSignal, i.e. is an arrival of the core model, to which all theorems of
   ProofsThm.v / ProofsTok.v apply. *)
Require Import V.Lib.Base V.C18.Model V.C18.Disp V.C18.Proofs V.C18.ProofsTok V.C18.ProofsThm V.C18.ProofsRun.
Local Open Scope Z_scope.
Local Arguments Z.add : simpl never.
Local Arguments Z.sub : simpl never.

(* ---- reachability at the OS level: runs of main(), every schedule of arrivals and steps ---- *)
Inductive oreach (pre : Z -> bool) : ost -> Prop :=
| oreach_main tl f a ra : bal 0 (core_of f) = true -> oreach pre (os_main tl (boot pre) reg0 f a ra)
| oreach_step s d : oreach pre s -> oreach pre (ostep d s)
| oreach_again tl s f a ra : oreach pre s -> idle s = true -> bal 0 (core_of f) = true ->
                       oreach pre (os_main tl (dsp s) (reg s) f a ra)
(* the main flow decides at an operation boundary what it does next: well nested relative to the blocks the application
   holds at that moment - in particular it may release blocks that a callback took (Proofs.reach_ops) *)
| oreach_flow s f : oreach pre s -> hs s = [] -> at_op (core s) = true -> bal (depth (core s)) (core_of f) = true ->
                    oreach pre (set_flow s f).

Definition oexec (ds : list Z) (s : ost) : ost := fold_left (fun s d => ostep d s) ds s.

Lemma oreach_oexec pre ds : forall s, oreach pre s -> oreach pre (oexec ds s).
Proof.
  induction ds as [|d ds IH]; intros s Hs; simpl; [exact Hs|].
  apply IH. now constructor.
Qed.

(* ---- views of the stack of sigHandler activations ---- *)
Definition is_run (e : sframe) : bool := match s_ph e with PRun => true | _ => false end.
Definition is_enter (e : sframe) : bool := match s_ph e with PEnter => true | _ => false end.
(* numbers whose handler is past signal(sig, SIG_IGN) and before signal(sig, sigHandler) *)
Definition busy (h : list sframe) : list Z := map s_sig (filter (fun e => negb (is_enter e)) h).
Definition running (h : list sframe) : list Z := map s_sig (filter is_run h).
Definition entering (h : list sframe) : list Z := map s_sig (filter is_enter h).
(* processSignal activations of the core that were called by sigHandler (not the nested call of unblockSignals) *)
Definition nondef (k : list hframe) : list hframe := filter (fun f => negb (h_def f)) k.

Fixpoint hs_ok (pre : Z -> bool) (h : list sframe) : Prop :=
  match h with
  | [] => True
  | e :: r => (s_sig e = alarm_sig \/ (is_reg (s_sig e) = true /\ pre (s_sig e) = false /\ ~ In (s_sig e) (busy r))) /\
              hs_ok pre r
  end.

Record OInv (pre : Z -> bool) (s : ost) : Prop := mkOInv {
  o_core : exists o a, bal 0 o = true /\ reach o a (core s);
  o_link : map h_sig (nondef (stack (core s))) = running (hs s);
  o_hs   : hs_ok pre (hs s);
  o_dsp  : forall x, is_reg x = true -> dsp s x = if pre x || mem x (busy (hs s)) then DIgnore else DHandler;
  o_acc  : forall x, count_eq x (acc s) = count_eq x (arrs (core s)) + count_eq x (entering (hs s));
  o_inst : inst (reg s) = Some O;                                   (* the running object is the registered one *)
  o_live : Forall (fun b => b <> O) (live (reg s)) /\ nxt (reg s) <> O;
  o_flt  : fault (reg s) = false;
  (* SIGALRM: once setAlarm(n > 0) has been executed and no handler activation for it is in progress, the handler is installed;
     before that the disposition is what the environment left and no activation exists *)
  o_alarm : alarm_set (reg s) = true -> ~ In alarm_sig (busy (hs s)) -> dsp s alarm_sig = DHandler;
  o_noalarm : alarm_set (reg s) = false -> dsp s alarm_sig = boot pre alarm_sig /\ ~ In alarm_sig (map s_sig (hs s)) }.

(* ---- small facts ---- *)
Lemma mem_In x l : mem x l = true <-> In x l.
Proof.
  unfold mem. rewrite existsb_exists. split.
  - intros [y [Hy He]]. apply Z.eqb_eq in He. subst. exact Hy.
  - intro H. exists x. split; [exact H|apply Z.eqb_refl].
Qed.

Lemma mem_false x l : mem x l = false <-> ~ In x l.
Proof.
  rewrite <- mem_In. destruct (mem x l); split; intro H; congruence.
Qed.

Lemma is_reg_nz x : is_reg x = true -> x <> 0.
Proof. intros H ->. vm_compute in H. discriminate. Qed.

Lemma step_arrive at_ d c : d <> 0 -> step at_ d c = arrive d c.
Proof. intro H. unfold step. destruct (Z.eqb_spec d 0); [contradiction|reflexivity]. Qed.

Lemma count_eq_app x a b : count_eq x (a ++ b) = count_eq x a + count_eq x b.
Proof. induction a as [|y a IH]; simpl; [lia|]. rewrite IH. lia. Qed.

Lemma step0_cons at_ c f rest : stack c = f :: rest ->
  stack (step at_ 0 c) = rest \/
  exists f', stack (step at_ 0 c) = f' :: rest /\ h_sig f' = h_sig f /\ h_def f' = h_def f.
Proof.
  intro Hs. unfold step. simpl. rewrite Hs. unfold hstep.
  destruct (h_pc f).
  - right. eexists. simpl. split; [reflexivity|split; reflexivity].
  - right. eexists. simpl. split; [reflexivity|split; reflexivity].
  - destruct (answers c) as [|[|] a]; simpl.
    + right. eexists. split; [reflexivity|split; reflexivity].
    + right. eexists. split; [reflexivity|split; reflexivity].
    + left. reflexivity.
  - destruct (pending c =? 0); right; eexists; simpl; (split; [reflexivity|split; reflexivity]).
  - right. eexists. simpl. split; [reflexivity|split; reflexivity].
  - left. reflexivity.
Qed.

Lemma step0_nil c : stack c = [] ->
  stack (step true 0 c) = [] \/ exists g, stack (step true 0 c) = [g] /\ h_def g = true.
Proof.
  intro Hs. unfold step. simpl. rewrite Hs. unfold mstep.
  destruct (mpc_ c) as [|dl|dl p pid].
  - destruct (ops c) as [|[|dl] o]; simpl; left; auto.
  - unfold take. destruct (pending c =? 0); [|destruct dl]; simpl; rewrite ?Hs.
    + left. reflexivity.
    + right. eexists. split; reflexivity.
    + left. reflexivity.
  - unfold take. destruct (p =? 0); [|destruct dl]; simpl; rewrite ?Hs.
    + left. reflexivity.
    + right. eexists. split; reflexivity.
    + left. reflexivity.
Qed.

Lemma step0_arrs at_ c : arrs (step at_ 0 c) = arrs c.
Proof.
  unfold step. simpl. destruct (stack c) as [|f rest].
  - unfold mstep. destruct (mpc_ c) as [|dl|dl p pid].
    + destruct (ops c) as [|[|dl] o]; reflexivity.
    + destruct at_; [|reflexivity]. unfold take. destruct (pending c =? 0); [|destruct dl]; reflexivity.
    + unfold take. destruct (p =? 0); [|destruct dl]; reflexivity.
  - unfold hstep. destruct (h_pc f); try reflexivity.
    + destruct (answers c) as [|[|] a]; reflexivity.
    + destruct (pending c =? 0); reflexivity.
Qed.

Lemma busy_cons e r : busy (e :: r) = if is_enter e then busy r else s_sig e :: busy r.
Proof. unfold busy. simpl. destruct (is_enter e); reflexivity. Qed.
Lemma running_cons e r : running (e :: r) = if is_run e then s_sig e :: running r else running r.
Proof. unfold running. simpl. destruct (is_run e); reflexivity. Qed.
Lemma entering_cons e r : entering (e :: r) = if is_enter e then s_sig e :: entering r else entering r.
Proof. unfold entering. simpl. destruct (is_enter e); reflexivity. Qed.

Lemma hs_ok_nodup pre h : hs_ok pre h -> NoDup (filter is_reg (busy h)).
Proof.
  induction h as [|e r IH]; simpl; intro H; [constructor|].
  destruct H as [Hx Hr]. rewrite busy_cons. destruct (is_enter e); [auto|]. simpl.
  destruct (is_reg (s_sig e)) eqn:Hreg; [|auto].
  constructor; auto. destruct Hx as [H4|[_ [_ Hn]]].
  - rewrite H4 in Hreg. discriminate.
  - intro Hin. apply filter_In in Hin. tauto.
Qed.

Lemma hs_ok_in pre h x : hs_ok pre h -> In x (map s_sig h) -> x = alarm_sig \/ (is_reg x = true /\ pre x = false).
Proof.
  induction h as [|e r IH]; simpl; intros H Hin; [contradiction|].
  destruct H as [Hx Hr]. destruct Hin as [<-|Hin]; [tauto|auto].
Qed.

Lemma is_reg_alarm : is_reg alarm_sig = false.
Proof. reflexivity. Qed.
Lemma is_reg_not_alarm y : is_reg y = true -> y <> alarm_sig.
Proof. intros H ->. discriminate. Qed.
Lemma is_sig_cases d : is_sig d = true -> d = alarm_sig \/ is_reg d = true.
Proof. unfold is_sig. intro H. apply orb_true_iff in H. destruct H as [H|H]; [auto|]. apply Z.eqb_eq in H. auto. Qed.
Lemma is_sig_nz d : is_sig d = true -> d <> 0.
Proof. intros H ->. vm_compute in H. discriminate. Qed.

(* the callback's setAlarm and the main flow's setAlarm touch SIGALRM only *)
Lemma cb_dsp_reg c r d y : y <> alarm_sig -> cb_dsp c r d y = d y.
Proof.
  intro H. unfold cb_dsp. destruct (rearm_now c r); [|reflexivity]. unfold upd. destruct (Z.eqb_spec y alarm_sig); [contradiction|reflexivity].
Qed.
Lemma objdsp_reg r d y : y <> alarm_sig -> objdsp r d y = d y.
Proof.
  intro H. unfold objdsp. destruct (oflow r) as [|[| | | | | |] f]; try reflexivity.
  unfold upd. destruct (Z.eqb_spec y alarm_sig); [contradiction|reflexivity].
Qed.
Lemma cb_alarm c r d : (rearm_now c r = true /\ cb_dsp c r d alarm_sig = DHandler /\ alarm_set (cb_reg c r) = true) \/
                       (cb_dsp c r d = d /\ alarm_set (cb_reg c r) = alarm_set r).
Proof.
  unfold cb_dsp, cb_reg. simpl. destruct (rearm_now c r); [left|right; auto].
  repeat split.
Qed.
Lemma objstep_alarm r r' d : objstep r = Some r' ->
  (objdsp r d alarm_sig = DHandler /\ alarm_set r' = true) \/ (objdsp r d = d /\ alarm_set r' = alarm_set r).
Proof.
  unfold objstep, objdsp. destruct (oflow r) as [|[| | | | | |] f]; try discriminate; intro H; inversion H; subst; clear H; simpl; auto.
  all: try (destruct (live r); auto).
  all: try (left; split; [|reflexivity]; unfold upd; rewrite Z.eqb_refl; reflexivity).
Qed.

Lemma busy_incl h x : In x (busy h) -> In x (map s_sig h).
Proof.
  unfold busy. intro H. apply in_map_iff in H. destruct H as [e [He Hin]]. apply filter_In in Hin.
  apply in_map_iff. exists e. tauto.
Qed.

(* ---- the invariant holds at the start of every run and is preserved by every step ---- *)
Lemma install_boot pre x : install (boot pre x) = if pre x then DIgnore else DHandler.
Proof. unfold boot. destruct (pre x); reflexivity. Qed.

Lemma oinv_main pre tl f a ra : bal 0 (core_of f) = true -> OInv pre (os_main tl (boot pre) reg0 f a ra).
Proof.
  intro Hb. constructor; simpl.
  - exists (core_of f), a. split; [exact Hb|constructor].
  - reflexivity.
  - exact I.
  - intros x Hx. rewrite Hx, install_boot. rewrite orb_false_r. reflexivity.
  - intro x. reflexivity.
  - reflexivity.
  - split; [constructor|discriminate].
  - reflexivity.
  - rewrite orb_false_r. intros -> _. reflexivity.
  - rewrite orb_false_r. intros ->. simpl. auto.
Qed.

Lemma oinv_again pre tl s f a ra : OInv pre s -> hs s = [] -> bal 0 (core_of f) = true -> OInv pre (os_main tl (dsp s) (reg s) f a ra).
Proof.
  intros [_ _ _ Hd _ _ Hlv Hf Hal Hna] Hh Hb. rewrite Hh in *. constructor; simpl.
  - exists (core_of f), a. split; [exact Hb|constructor].
  - reflexivity.
  - exact I.
  - intros x Hx. rewrite Hx. rewrite (Hd x Hx). simpl. rewrite orb_false_r. destruct (pre x); reflexivity.
  - intro x. reflexivity.
  - reflexivity.
  - exact Hlv.
  - exact Hf.
  - intros H _. destruct tl; simpl in *; [reflexivity|]. apply Hal; auto.
  - intro H. apply orb_false_iff in H. destruct H as [-> H]. simpl. split; [apply Hna; exact H|auto].
Qed.

(* destroying another object (or a copy of the running one) leaves the registration alone *)
Lemma reset_other b : b <> O -> reset_inst b (Some O) = Some O.
Proof. intro H. unfold reset_inst. destruct b; [contradiction|reflexivity]. Qed.

Lemma objstep_inv r r' : inst r = Some O -> Forall (fun b => b <> O) (live r) /\ nxt r <> O -> fault r = false ->
  objstep r = Some r' ->
  inst r' = Some O /\ (Forall (fun b => b <> O) (live r') /\ nxt r' <> O) /\ fault r' = false.
Proof.
  intros Hi [Hl Hn] Hf H. unfold objstep in H. destruct (oflow r) as [|[| | | | | |] fl]; try discriminate; inversion H; subst; clear H; simpl.
  - repeat split; auto.
  - destruct (live r) as [|b l] eqn:Hlv; simpl.
    + repeat split; auto.
    + inversion Hl; subst. rewrite Hi, reset_other by assumption. repeat split; auto.
  - rewrite Hi, reset_other by assumption. repeat split; auto.
  - repeat split; auto.
  - repeat split; auto.
  - repeat split; auto.
Qed.

Ltac ocons := constructor; cbn [core dsp hs acc drp reg].

Lemma nondef_top c f rest e r :
  Inv c -> stack c = f :: rest -> map h_sig (nondef (f :: rest)) = running (e :: r) -> is_run e = true ->
  h_def f = false /\ h_sig f = s_sig e /\ map h_sig (nondef rest) = running r.
Proof.
  intros HI Hs Hl He. rewrite running_cons, He in Hl.
  destruct HI as [_ _ _ _ _ _ _ Hdef _ _ _]. rewrite Hs in Hdef. simpl in Hdef. destruct Hdef as [Hd1 _].
  unfold nondef in *. simpl in Hl. destruct (h_def f) eqn:Hdf; simpl in Hl.
  - exfalso. destruct rest as [|g rest']; [simpl in Hl; discriminate|].
    specialize (Hd1 ltac:(discriminate)). congruence.
  - inversion Hl. auto.
Qed.

Lemma nondef_none c : Inv c -> map h_sig (nondef (stack c)) = [] ->
  stack c = [] \/ exists f, stack c = [f] /\ h_def f = true.
Proof.
  intros HI Hl. destruct (stack c) as [|f rest] eqn:Hs; [left; reflexivity|right].
  destruct HI as [_ _ _ _ _ _ _ Hdef _ _ _]. rewrite Hs in Hdef. simpl in Hdef. destruct Hdef as [Hd1 _].
  unfold nondef in Hl. simpl in Hl. destruct (h_def f) eqn:Hdf; simpl in Hl; [|discriminate].
  destruct rest as [|g rest']; [exists f; auto|]. specialize (Hd1 ltac:(discriminate)). congruence.
Qed.

(* hs = []: a step of the core (main flow or the nested call of unblockSignals) with any harmless registration state and
   any change of SIGALRM's disposition that respects the alarm invariant *)
Lemma oinv_core_step pre s d' r' : OInv pre s -> hs s = [] ->
  (forall y, y <> alarm_sig -> d' y = dsp s y) ->
  inst r' = Some O -> Forall (fun b => b <> O) (live r') /\ nxt r' <> O -> fault r' = false ->
  (alarm_set r' = true -> d' alarm_sig = DHandler) -> (alarm_set r' = false -> d' alarm_sig = boot pre alarm_sig) ->
  OInv pre (mkO (step true 0 (core s)) d' [] (acc s) (drp s) r').
Proof.
  intros [[o [a [Hb Hr]]] Hl Hh Hd Ha _ _ _ _ _] Hhs Hd' Hi' Hl' Hf' Ha1 Ha2.
  pose proof (reach_inv _ _ _ Hb Hr) as HI. rewrite Hhs in *.
  ocons; [ | |exact I| | |exact Hi'|exact Hl'|exact Hf'| | ].
  - exists o, a. split; [exact Hb|constructor; exact Hr].
  - change (running []) with (@nil Z) in *.
    destruct (nondef_none _ HI Hl) as [Hs|[f [Hs Hf]]].
    + destruct (step0_nil _ Hs) as [H|[g [H Hg]]]; rewrite H; unfold nondef; simpl; [reflexivity|].
      rewrite Hg. reflexivity.
    + destruct (step0_cons true _ _ _ Hs) as [H|[f' [H [_ Hf'']]]]; rewrite H; unfold nondef; simpl; [reflexivity|].
      rewrite Hf'', Hf. reflexivity.
  - intros y Hy. rewrite Hd' by (apply is_reg_not_alarm; exact Hy). apply Hd. exact Hy.
  - intro x. rewrite step0_arrs. apply Ha.
  - intros H _. auto.
  - intro H. split; [auto|simpl; auto].
Qed.

(* the alarm invariant under the callback's own setAlarm, for a handler stack with the same numbers / busy numbers *)
Lemma alarm_cb pre c r d h h' :
  busy h' = busy h -> map s_sig h' = map s_sig h ->
  (alarm_set r = true -> ~ In alarm_sig (busy h) -> d alarm_sig = DHandler) ->
  (alarm_set r = false -> d alarm_sig = boot pre alarm_sig /\ ~ In alarm_sig (map s_sig h)) ->
  (alarm_set (cb_reg c r) = true -> ~ In alarm_sig (busy h') -> cb_dsp c r d alarm_sig = DHandler) /\
  (alarm_set (cb_reg c r) = false -> cb_dsp c r d alarm_sig = boot pre alarm_sig /\ ~ In alarm_sig (map s_sig h')).
Proof.
  intros Hb Hm H1 H2. rewrite Hb, Hm.
  destruct (cb_alarm c r d) as [[_ [Hd Hs]]|[Hd Hs]]; rewrite Hs.
  - split; [auto|discriminate].
  - rewrite Hd. auto.
Qed.

(* the callback's own blockSignals() changes blocked_ / the blocks held only: nothing the OS layer looks at *)
Lemma stack_cbb c : stack (cb_block c) = stack c.
Proof. unfold cb_block. destruct (stack c) as [|f r] eqn:E; [exact E|]. destruct (h_pc f); try exact E. reflexivity. Qed.
Lemma arrs_cbb c : arrs (cb_block c) = arrs c.
Proof. unfold cb_block. destruct (stack c) as [|f r]; [reflexivity|]. destruct (h_pc f); reflexivity. Qed.

Lemma oinv_cbb pre c d h ac dr r : OInv pre (mkO c d h ac dr r) -> OInv pre (mkO (cb_block c) d h ac dr r).
Proof.
  intros [[o [a [Hb Hr]]] Hl Hh Hd Ha Hin Hlv Hft Hal Hna]. cbn [core dsp hs acc drp reg] in *.
  constructor; cbn [core dsp hs acc drp reg]; auto.
  - exists o, a. split; [exact Hb|apply reach_cbb; exact Hr].
  - rewrite stack_cbb. exact Hl.
  - intro x. rewrite arrs_cbb. apply Ha.
Qed.

Lemma oinv_step pre d s : OInv pre s -> OInv pre (ostep d s).
Proof.
  intros HO. pose proof HO as [[o [a [Hb Hr]]] Hl Hh Hd Ha Hin Hlv Hft Hal Hna].
  pose proof (reach_inv _ _ _ Hb Hr) as HI.
  unfold ostep. destruct (Z.eqb_spec d 0) as [Hd0|Hd0].
  - destruct (hs s) as [|e r] eqn:Hhs.
    + (* main flow / deferred activation *)
      destruct (at_op (core s)).
      * destruct (objstep (reg s)) as [r'|] eqn:Ho.
        -- destruct (objstep_inv _ _ Hin Hlv Hft Ho) as [H1 [H2 H3]].
           ocons; auto.
           ++ exists o, a. auto.
           ++ intros y Hy. rewrite objdsp_reg by (apply is_reg_not_alarm; exact Hy). apply Hd. exact Hy.
           ++ intros Hs _. destruct (objstep_alarm _ _ (dsp s) Ho) as [[Hx _]|[Hx Hy]]; [exact Hx|].
              rewrite Hx. apply Hal; [congruence|simpl; auto].
           ++ intro Hs. destruct (objstep_alarm _ _ (dsp s) Ho) as [[_ Hy]|[Hx Hy]]; [congruence|].
              rewrite Hx. apply Hna. congruence.
        -- assert (B1 : alarm_set (pop_flow (reg s)) = true -> dsp s alarm_sig = DHandler)
             by (intro H; apply Hal; [exact H|simpl; auto]).
           assert (B2 : alarm_set (pop_flow (reg s)) = false -> dsp s alarm_sig = boot pre alarm_sig)
             by (intro H; apply Hna; exact H).
           apply oinv_core_step; auto.
      * unfold cstep. destruct (cbblock_now (core s) (reg s)); [apply oinv_cbb|].
        all: destruct (alarm_cb pre (core s) (reg s) (dsp s) [] [] eq_refl eq_refl Hal Hna) as [A1 A2].
        all: assert (B0 : forall y, y <> alarm_sig -> cb_dsp (core s) (reg s) (dsp s) y = dsp s y)
          by (intros y Hy; apply cb_dsp_reg; exact Hy).
        all: assert (B1 : alarm_set (cb_reg (core s) (reg s)) = true -> cb_dsp (core s) (reg s) (dsp s) alarm_sig = DHandler)
          by (intro H; apply A1; [exact H|simpl; auto]).
        all: assert (B2 : alarm_set (cb_reg (core s) (reg s)) = false -> cb_dsp (core s) (reg s) (dsp s) alarm_sig = boot pre alarm_sig)
          by (intro H; apply A2; exact H).
        all: apply oinv_core_step; auto.
    + destruct e as [x ph]. simpl in Hh. destruct Hh as [Hx Hok]. cbn [s_ph s_sig].
      assert (Hnz : x <> 0).
      { destruct Hx as [->|[Hreg _]]; [discriminate|apply is_reg_nz; exact Hreg]. }
      destruct ph.
      * (* PEnter: signal(x, SIG_IGN); getInstance()->processSignal(x) *)
        rewrite Hin.
        ocons; [ | | | | |exact Hin|exact Hlv|exact Hft| | ].
        -- exists o, a. split; [exact Hb|]. rewrite <- (step_arrive true) by exact Hnz.
           constructor. exact Hr.
        -- rewrite running_cons in Hl |- *. simpl in Hl |- *. unfold nondef in Hl |- *. simpl. rewrite Hl. reflexivity.
        -- simpl. auto.
        -- intros y Hy. rewrite busy_cons. simpl. unfold upd. rewrite (Hd y Hy), busy_cons. simpl.
           destruct (Z.eqb_spec y x) as [->|Hne]; simpl; [rewrite orb_true_r|]; reflexivity.
        -- intro y. rewrite (Ha y), entering_cons. simpl. rewrite entering_cons. simpl.
           rewrite count_eq_app. simpl. lia.
        -- rewrite busy_cons. simpl. intros Hs Hn. unfold upd.
           destruct (Z.eqb_spec alarm_sig x) as [He|He]; [exfalso; apply Hn; left; auto|].
           apply Hal; [exact Hs|]. rewrite busy_cons. simpl. tauto.
        -- intro Hs. destruct (Hna Hs) as [H1 H2]. simpl in H2. split; [|simpl; exact H2].
           unfold upd. destruct (Z.eqb_spec alarm_sig x) as [He|He]; [exfalso; apply H2; left; auto|exact H1].
      * (* PRun: one step of its processSignal activation *)
        cbv zeta. unfold cstep.
        match goal with |- OInv pre (mkO _ ?d (if (length (stack _) <? ?n)%nat then ?h1 else ?h2) ?a ?dr ?rr) =>
          assert (G : OInv pre (mkO (step true 0 (core s)) d (if (length (stack (step true 0 (core s))) <? n)%nat then h1 else h2) a dr rr));
          [|destruct (cbblock_now (core s) (reg s)); [rewrite stack_cbb; apply oinv_cbb|]; exact G] end.
        destruct (stack (core s)) as [|f rest] eqn:Hs.
        { exfalso. rewrite running_cons in Hl. simpl in Hl. discriminate. }
        destruct (nondef_top _ _ _ _ _ HI Hs Hl eq_refl) as [Hdf [Hsg Hrest]]. simpl in Hsg.
        assert (Hdy : forall y, is_reg y = true ->
                  cb_dsp (core s) (reg s) (dsp s) y = (if pre y || mem y (busy (mkS x PRun :: r)) then DIgnore else DHandler)).
        { intros y Hy. rewrite cb_dsp_reg by (apply is_reg_not_alarm; exact Hy). apply Hd. exact Hy. }
        destruct (step0_cons true _ _ _ Hs) as [H|[f' [H [Hs' Hd']]]].
        -- destruct (alarm_cb pre (core s) (reg s) (dsp s) (mkS x PRun :: r) (mkS x PExit :: r) eq_refl eq_refl Hal Hna) as [A1 A2].
           ocons; rewrite ?H; [ | | | | |exact Hin|exact Hlv|exact Hft| | ].
           ++ exists o, a. split; [exact Hb|constructor; exact Hr].
           ++ simpl. destruct (Nat.ltb_spec (length rest) (S (length rest))); [|lia].
              rewrite running_cons. simpl. exact Hrest.
           ++ simpl. destruct (Nat.ltb_spec (length rest) (S (length rest))); [|lia]. simpl. auto.
           ++ simpl. destruct (Nat.ltb_spec (length rest) (S (length rest))); [|lia].
              intros y Hy. rewrite (Hdy y Hy). rewrite !busy_cons. reflexivity.
           ++ simpl. destruct (Nat.ltb_spec (length rest) (S (length rest))); [|lia].
              intro y. rewrite (Ha y). rewrite step0_arrs. rewrite !entering_cons. reflexivity.
           ++ simpl length. destruct (Nat.ltb_spec (length rest) (S (length rest))); [|lia]. exact A1.
           ++ simpl length. destruct (Nat.ltb_spec (length rest) (S (length rest))); [|lia]. exact A2.
        -- destruct (alarm_cb pre (core s) (reg s) (dsp s) (mkS x PRun :: r) (mkS x PRun :: r) eq_refl eq_refl Hal Hna) as [A1 A2].
           ocons; rewrite ?H; [ | | | | |exact Hin|exact Hlv|exact Hft| | ].
           ++ exists o, a. split; [exact Hb|constructor; exact Hr].
           ++ simpl. destruct (Nat.ltb_spec (S (length rest)) (S (length rest))); [lia|].
              rewrite <- Hl. unfold nondef. simpl. rewrite Hd', Hdf. simpl. rewrite Hs'. reflexivity.
           ++ simpl. destruct (Nat.ltb_spec (S (length rest)) (S (length rest))); [lia|]. simpl. auto.
           ++ simpl. destruct (Nat.ltb_spec (S (length rest)) (S (length rest))); [lia|]. exact Hdy.
           ++ simpl. destruct (Nat.ltb_spec (S (length rest)) (S (length rest))); [lia|].
              intro y. rewrite step0_arrs. apply Ha.
           ++ simpl length. destruct (Nat.ltb_spec (S (length rest)) (S (length rest))); [lia|]. exact A1.
           ++ simpl length. destruct (Nat.ltb_spec (S (length rest)) (S (length rest))); [lia|]. exact A2.
      * (* PExit: signal(x, sigHandler) *)
        ocons; [ | | | | |exact Hin|exact Hlv|exact Hft| | ].
        -- exists o, a. split; [exact Hb|exact Hr].
        -- rewrite running_cons in Hl. simpl in Hl. exact Hl.
        -- exact Hok.
        -- intros y Hy. unfold upd. rewrite (Hd y Hy), busy_cons. simpl.
           destruct (Z.eqb_spec y x) as [->|Hne].
           ++ destruct Hx as [H4|[_ [Hpre Hnb]]]; [rewrite H4 in Hy; discriminate|].
              rewrite Hpre. apply mem_false in Hnb. rewrite Hnb. reflexivity.
           ++ unfold mem. simpl. destruct (Z.eqb_spec y x); [contradiction|]. reflexivity.
        -- intro y. rewrite (Ha y), entering_cons. reflexivity.
        -- intros Hs Hn. unfold upd. destruct (Z.eqb_spec alarm_sig x) as [He|He]; [reflexivity|].
           apply Hal; [exact Hs|]. rewrite busy_cons. simpl. intros [H|H]; [congruence|contradiction].
        -- intro Hs. destruct (Hna Hs) as [H1 H2]. simpl in H2. split; [|tauto].
           unfold upd. destruct (Z.eqb_spec alarm_sig x) as [He|He]; [exfalso; apply H2; left; auto|exact H1].
  - (* OS-level arrival *)
    destruct (is_sig d) eqn:Hsig; [|exact HO].
    destruct (dsp s d) eqn:Hds.
    + exact HO.
    + (* the handler is installed: sigHandler starts *)
      ocons; [ | | | | |exact Hin|exact Hlv|exact Hft| | ].
      * eauto.
      * rewrite running_cons. exact Hl.
      * simpl. split; [|exact Hh]. destruct (is_sig_cases _ Hsig) as [H4|Hreg]; [left; exact H4|right].
        pose proof (Hd d Hreg) as Hdd. rewrite Hds in Hdd.
        destruct (pre d || mem d (busy (hs s))) eqn:Hc; [discriminate|].
        apply orb_false_iff in Hc. destruct Hc as [Hp Hm]. apply mem_false in Hm. auto.
      * intros y Hy. rewrite busy_cons. simpl. apply Hd. exact Hy.
      * intro y. rewrite count_eq_app, entering_cons. simpl. rewrite (Ha y). lia.
      * rewrite busy_cons. simpl. exact Hal.
      * intro Hs. destruct (Hna Hs) as [H1 H2]. split; [exact H1|]. simpl. intros [H|H]; [|contradiction].
        subst d. rewrite H1 in Hds. unfold boot in Hds. destruct (pre alarm_sig); discriminate.
    + (* ignored: discarded *)
      ocons; eauto.
Qed.

Lemma oinv_flow pre s f : OInv pre s -> hs s = [] -> at_op (core s) = true -> bal (depth (core s)) (core_of f) = true ->
  OInv pre (set_flow s f).
Proof.
  intros [[o [a [Hb Hr]]] Hl Hh Hd Ha Hin Hlv Hft Hal Hna] Hhs Hat Hbf.
  assert (Hs : stack (core s) = [] /\ mpc_ (core s) = MOp).
  { unfold at_op in Hat. destruct (stack (core s)); [|discriminate]. destruct (mpc_ (core s)); try discriminate. auto. }
  destruct Hs as [Hs Hm].
  unfold set_flow. constructor; cbn [core dsp hs acc drp reg inst live nxt fault alarm_set]; auto.
  exists o, a. split; [exact Hb|apply reach_ops; assumption].
Qed.

Theorem oreach_inv pre s : oreach pre s -> OInv pre s.
Proof.
  induction 1 as [tl f a ra Hb|s d _ IH|tl s f a ra _ IH Hi Hb|s f _ IH Hhs Hat Hb]; [| | |apply oinv_flow; assumption].
  - apply oinv_main. exact Hb.
  - apply oinv_step. exact IH.
  - apply oinv_again; [exact IH| |exact Hb].
    unfold idle in Hi. destruct (hs s); [reflexivity|discriminate].
Qed.
