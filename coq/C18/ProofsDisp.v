(* C18 - the OS-level layer (Disp.v): dispositions follow the sigHandler activations in progress; an arrival is
   discarded by the OS only while a handler for the same number is in progress (or the environment had it ignored);
   every other arrival reaches processSignal, i.e. is an arrival of the core model, to which all theorems of
   ProofsThm.v / ProofsTok.v apply. *)
Require Import V.Lib.Base V.C18.Model V.C18.Disp V.C18.Proofs V.C18.ProofsTok V.C18.ProofsThm V.C18.ProofsRun.
Local Open Scope Z_scope.
Local Arguments Z.add : simpl never.
Local Arguments Z.sub : simpl never.

(* ---- reachability at the OS level: runs of main(), every schedule of arrivals and steps ---- *)
Inductive oreach (pre : Z -> bool) : ost -> Prop :=
| oreach_main o a : bal 0 o = true -> oreach pre (os_main (boot pre) o a)
| oreach_step s d : oreach pre s -> oreach pre (ostep d s)
| oreach_again s o a : oreach pre s -> idle s = true -> bal 0 o = true -> oreach pre (os_main (dsp s) o a).

Definition oexec (ds : list Z) (s : ost) : ost := fold_left (fun s d => ostep d s) ds s.

Lemma oreach_oexec pre ds : forall s, oreach pre s -> oreach pre (oexec ds s).
Proof.
  induction ds as [|d ds IH]; intros s Hs; simpl; [exact Hs|].
  apply IH. now constructor.
Qed.

(* ---- views of the stack of sigHandler activations ---- *)
Definition is_run (e : sframe) : bool := match s_ph e with PRun => true | _ => false end.
Definition is_enter (e : sframe) : bool := match s_ph e with PEnter => true | _ => false end.
(* numbers whose handler is past signal(sig, SIG_IGN) and before signal(sig, sigHandler) *)
Definition busy (h : list sframe) : list Z := map s_sig (filter (fun e => negb (is_enter e)) h).
Definition running (h : list sframe) : list Z := map s_sig (filter is_run h).
Definition entering (h : list sframe) : list Z := map s_sig (filter is_enter h).
(* processSignal activations of the core that were called by sigHandler (not the nested call of unblockSignals) *)
Definition nondef (k : list hframe) : list hframe := filter (fun f => negb (h_def f)) k.

Fixpoint hs_ok (pre : Z -> bool) (h : list sframe) : Prop :=
  match h with
  | [] => True
  | e :: r => is_reg (s_sig e) = true /\ pre (s_sig e) = false /\ ~ In (s_sig e) (busy r) /\ hs_ok pre r
  end.

Record OInv (pre : Z -> bool) (s : ost) : Prop := mkOInv {
  o_core : exists o a, bal 0 o = true /\ reach o a (core s);
  o_link : map h_sig (nondef (stack (core s))) = running (hs s);
  o_hs   : hs_ok pre (hs s);
  o_dsp  : forall x, is_reg x = true -> dsp s x = if pre x || mem x (busy (hs s)) then DIgnore else DHandler;
  o_acc  : forall x, count_eq x (acc s) = count_eq x (arrs (core s)) + count_eq x (entering (hs s)) }.

(* ---- small facts ---- *)
Lemma mem_In x l : mem x l = true <-> In x l.
Proof.
  unfold mem. rewrite existsb_exists. split.
  - intros [y [Hy He]]. apply Z.eqb_eq in He. subst. exact Hy.
  - intro H. exists x. split; [exact H|apply Z.eqb_refl].
Qed.

Lemma mem_false x l : mem x l = false <-> ~ In x l.
Proof.
  rewrite <- mem_In. destruct (mem x l); split; intro H; congruence.
Qed.

Lemma is_reg_nz x : is_reg x = true -> x <> 0.
Proof. intros H ->. vm_compute in H. discriminate. Qed.

Lemma step_arrive at_ d c : d <> 0 -> step at_ d c = arrive d c.
Proof. intro H. unfold step. destruct (Z.eqb_spec d 0); [contradiction|reflexivity]. Qed.

Lemma count_eq_app x a b : count_eq x (a ++ b) = count_eq x a + count_eq x b.
Proof. induction a as [|y a IH]; simpl; [lia|]. rewrite IH. lia. Qed.

Lemma step0_cons at_ c f rest : stack c = f :: rest ->
  stack (step at_ 0 c) = rest \/
  exists f', stack (step at_ 0 c) = f' :: rest /\ h_sig f' = h_sig f /\ h_def f' = h_def f.
Proof.
  intro Hs. unfold step. simpl. rewrite Hs. unfold hstep.
  destruct (h_pc f).
  - right. eexists. simpl. split; [reflexivity|split; reflexivity].
  - right. eexists. simpl. split; [reflexivity|split; reflexivity].
  - destruct (answers c) as [|[|] a]; simpl.
    + right. eexists. split; [reflexivity|split; reflexivity].
    + right. eexists. split; [reflexivity|split; reflexivity].
    + left. reflexivity.
  - destruct (pending c =? 0); right; eexists; simpl; (split; [reflexivity|split; reflexivity]).
  - right. eexists. simpl. split; [reflexivity|split; reflexivity].
  - left. reflexivity.
Qed.

Lemma step0_nil c : stack c = [] ->
  stack (step true 0 c) = [] \/ exists g, stack (step true 0 c) = [g] /\ h_def g = true.
Proof.
  intro Hs. unfold step. simpl. rewrite Hs. unfold mstep.
  destruct (mpc_ c) as [|dl|dl p pid].
  - destruct (ops c) as [|[|dl] o]; simpl; left; auto.
  - unfold take. destruct (pending c =? 0); [|destruct dl]; simpl; rewrite ?Hs.
    + left. reflexivity.
    + right. eexists. split; reflexivity.
    + left. reflexivity.
  - unfold take. destruct (p =? 0); [|destruct dl]; simpl; rewrite ?Hs.
    + left. reflexivity.
    + right. eexists. split; reflexivity.
    + left. reflexivity.
Qed.

Lemma step0_arrs at_ c : arrs (step at_ 0 c) = arrs c.
Proof.
  unfold step. simpl. destruct (stack c) as [|f rest].
  - unfold mstep. destruct (mpc_ c) as [|dl|dl p pid].
    + destruct (ops c) as [|[|dl] o]; reflexivity.
    + destruct at_; [|reflexivity]. unfold take. destruct (pending c =? 0); [|destruct dl]; reflexivity.
    + unfold take. destruct (p =? 0); [|destruct dl]; reflexivity.
  - unfold hstep. destruct (h_pc f); try reflexivity.
    + destruct (answers c) as [|[|] a]; reflexivity.
    + destruct (pending c =? 0); reflexivity.
Qed.

Lemma busy_cons e r : busy (e :: r) = if is_enter e then busy r else s_sig e :: busy r.
Proof. unfold busy. simpl. destruct (is_enter e); reflexivity. Qed.
Lemma running_cons e r : running (e :: r) = if is_run e then s_sig e :: running r else running r.
Proof. unfold running. simpl. destruct (is_run e); reflexivity. Qed.
Lemma entering_cons e r : entering (e :: r) = if is_enter e then s_sig e :: entering r else entering r.
Proof. unfold entering. simpl. destruct (is_enter e); reflexivity. Qed.

Lemma hs_ok_nodup pre h : hs_ok pre h -> NoDup (busy h).
Proof.
  induction h as [|e r IH]; simpl; intro H; [constructor|].
  destruct H as [_ [_ [Hn Hr]]]. rewrite busy_cons. destruct (is_enter e); [auto|].
  constructor; auto.
Qed.

Lemma hs_ok_in pre h x : hs_ok pre h -> In x (map s_sig h) -> is_reg x = true /\ pre x = false.
Proof.
  induction h as [|e r IH]; simpl; intros H Hin; [contradiction|].
  destruct H as [H1 [H2 [_ Hr]]]. destruct Hin as [<-|Hin]; auto.
Qed.

Lemma busy_incl h x : In x (busy h) -> In x (map s_sig h).
Proof.
  unfold busy. intro H. apply in_map_iff in H. destruct H as [e [He Hin]]. apply filter_In in Hin.
  apply in_map_iff. exists e. tauto.
Qed.

(* ---- the invariant holds at the start of every run and is preserved by every step ---- *)
Lemma install_boot pre x : install (boot pre x) = if pre x then DIgnore else DHandler.
Proof. unfold boot. destruct (pre x); reflexivity. Qed.

Lemma oinv_main pre o a : bal 0 o = true -> OInv pre (os_main (boot pre) o a).
Proof.
  intro Hb. constructor; simpl.
  - exists o, a. split; [exact Hb|constructor].
  - reflexivity.
  - exact I.
  - intros x Hx. rewrite Hx, install_boot. rewrite orb_false_r. reflexivity.
  - intro x. reflexivity.
Qed.

Lemma oinv_again pre s o a : OInv pre s -> hs s = [] -> bal 0 o = true -> OInv pre (os_main (dsp s) o a).
Proof.
  intros [_ _ _ Hd _] Hh Hb. constructor; simpl.
  - exists o, a. split; [exact Hb|constructor].
  - reflexivity.
  - exact I.
  - intros x Hx. rewrite Hx. rewrite (Hd x Hx), Hh. simpl. rewrite orb_false_r. destruct (pre x); reflexivity.
  - intro x. reflexivity.
Qed.

Ltac ocons := constructor; cbn [core dsp hs acc drp].

Lemma nondef_top c f rest e r :
  Inv c -> stack c = f :: rest -> map h_sig (nondef (f :: rest)) = running (e :: r) -> is_run e = true ->
  h_def f = false /\ h_sig f = s_sig e /\ map h_sig (nondef rest) = running r.
Proof.
  intros HI Hs Hl He. rewrite running_cons, He in Hl.
  destruct HI as [_ _ _ _ _ _ _ Hdef _ _ _]. rewrite Hs in Hdef. simpl in Hdef. destruct Hdef as [Hd1 _].
  unfold nondef in *. simpl in Hl. destruct (h_def f) eqn:Hdf; simpl in Hl.
  - exfalso. destruct rest as [|g rest']; [simpl in Hl; discriminate|].
    specialize (Hd1 ltac:(discriminate)). congruence.
  - inversion Hl. auto.
Qed.

Lemma nondef_none c : Inv c -> map h_sig (nondef (stack c)) = [] ->
  stack c = [] \/ exists f, stack c = [f] /\ h_def f = true.
Proof.
  intros HI Hl. destruct (stack c) as [|f rest] eqn:Hs; [left; reflexivity|right].
  destruct HI as [_ _ _ _ _ _ _ Hdef _ _ _]. rewrite Hs in Hdef. simpl in Hdef. destruct Hdef as [Hd1 _].
  unfold nondef in Hl. simpl in Hl. destruct (h_def f) eqn:Hdf; simpl in Hl; [|discriminate].
  destruct rest as [|g rest']; [exists f; auto|]. specialize (Hd1 ltac:(discriminate)). congruence.
Qed.

Lemma oinv_step pre d s : OInv pre s -> OInv pre (ostep d s).
Proof.
  intros [[o [a [Hb Hr]]] Hl Hh Hd Ha].
  pose proof (reach_inv _ _ _ Hb Hr) as HI.
  unfold ostep. destruct (Z.eqb_spec d 0) as [Hd0|Hd0].
  - destruct (hs s) as [|e r] eqn:Hhs.
    + (* main flow / deferred activation *)
      ocons.
      * exists o, a. split; [exact Hb|constructor; exact Hr].
      * change (running []) with (@nil Z) in *.
        destruct (nondef_none _ HI Hl) as [Hs|[f [Hs Hf]]].
        -- destruct (step0_nil _ Hs) as [H|[g [H Hg]]]; rewrite H; unfold nondef; simpl; [reflexivity|].
           rewrite Hg. reflexivity.
        -- destruct (step0_cons true _ _ _ Hs) as [H|[f' [H [_ Hf']]]]; rewrite H; unfold nondef; simpl; [reflexivity|].
           rewrite Hf', Hf. reflexivity.
      * exact I.
      * exact Hd.
      * intro x. rewrite step0_arrs. apply Ha.
    + destruct e as [x ph]. simpl in Hh. destruct Hh as [Hreg [Hpre [Hnb Hok]]]. cbn [s_ph s_sig].
      destruct ph.
      * (* PEnter: signal(x, SIG_IGN); processSignal(x) *)
        ocons.
        -- exists o, a. split; [exact Hb|]. rewrite <- (step_arrive true) by (apply is_reg_nz; exact Hreg).
           constructor. exact Hr.
        -- rewrite running_cons in Hl |- *. simpl in Hl |- *. unfold nondef in Hl |- *. simpl. rewrite Hl. reflexivity.
        -- simpl. auto.
        -- intros y Hy. rewrite busy_cons. simpl. unfold upd. rewrite (Hd y Hy), busy_cons. simpl.
           destruct (Z.eqb_spec y x) as [->|Hne]; simpl; [rewrite orb_true_r|]; reflexivity.
        -- intro y. rewrite (Ha y), entering_cons. simpl. rewrite entering_cons. simpl.
           rewrite count_eq_app. simpl. lia.
      * (* PRun: one step of its processSignal activation *)
        destruct (stack (core s)) as [|f rest] eqn:Hs.
        { exfalso. rewrite running_cons in Hl. simpl in Hl. discriminate. }
        destruct (nondef_top _ _ _ _ _ HI Hs Hl eq_refl) as [Hdf [Hsg Hrest]]. simpl in Hsg.
        destruct (step0_cons true _ _ _ Hs) as [H|[f' [H [Hs' Hd']]]].
        -- ocons; rewrite ?H.
           ++ exists o, a. split; [exact Hb|constructor; exact Hr].
           ++ simpl. destruct (Nat.ltb_spec (length rest) (S (length rest))); [|lia].
              rewrite running_cons. simpl. exact Hrest.
           ++ simpl. destruct (Nat.ltb_spec (length rest) (S (length rest))); [|lia]. simpl. auto.
           ++ simpl. destruct (Nat.ltb_spec (length rest) (S (length rest))); [|lia].
              intros y Hy. rewrite (Hd y Hy). rewrite !busy_cons. reflexivity.
           ++ simpl. destruct (Nat.ltb_spec (length rest) (S (length rest))); [|lia].
              intro y. rewrite (Ha y). rewrite step0_arrs. rewrite !entering_cons. reflexivity.
        -- ocons; rewrite ?H.
           ++ exists o, a. split; [exact Hb|constructor; exact Hr].
           ++ simpl. destruct (Nat.ltb_spec (S (length rest)) (S (length rest))); [lia|].
              rewrite <- Hl. unfold nondef. simpl. rewrite Hd', Hdf. simpl. rewrite Hs'. reflexivity.
           ++ simpl. destruct (Nat.ltb_spec (S (length rest)) (S (length rest))); [lia|]. simpl. auto.
           ++ simpl. destruct (Nat.ltb_spec (S (length rest)) (S (length rest))); [lia|]. exact Hd.
           ++ simpl. destruct (Nat.ltb_spec (S (length rest)) (S (length rest))); [lia|].
              intro y. rewrite step0_arrs. apply Ha.
      * (* PExit: signal(x, sigHandler) *)
        ocons.
        -- exists o, a. split; [exact Hb|exact Hr].
        -- rewrite running_cons in Hl. simpl in Hl. exact Hl.
        -- exact Hok.
        -- intros y Hy. unfold upd. rewrite (Hd y Hy), busy_cons. simpl.
           destruct (Z.eqb_spec y x) as [->|Hne].
           ++ rewrite Hpre. apply mem_false in Hnb. rewrite Hnb. reflexivity.
           ++ unfold mem. simpl. destruct (Z.eqb_spec y x); [contradiction|]. reflexivity.
        -- intro y. rewrite (Ha y), entering_cons. reflexivity.
  - (* OS-level arrival *)
    destruct (is_reg d) eqn:Hreg; [|constructor; eauto].
    pose proof (Hd d Hreg) as Hdd.
    destruct (dsp s d) eqn:Hds.
    + constructor; eauto.
    + (* the handler is installed: sigHandler starts *)
      destruct (pre d || mem d (busy (hs s))) eqn:Hc; [discriminate|].
      apply orb_false_iff in Hc. destruct Hc as [Hp Hm]. apply mem_false in Hm.
      ocons.
      * eauto.
      * rewrite running_cons. exact Hl.
      * simpl. auto.
      * intros y Hy. rewrite busy_cons. simpl. apply Hd. exact Hy.
      * intro y. rewrite count_eq_app, entering_cons. simpl. rewrite (Ha y). lia.
    + (* ignored: discarded *)
      constructor; simpl; eauto.
Qed.

Theorem oreach_inv pre s : oreach pre s -> OInv pre s.
Proof.
  induction 1 as [o a Hb|s d _ IH|s o a _ IH Hi Hb].
  - apply oinv_main. exact Hb.
  - apply oinv_step. exact IH.
  - apply oinv_again; [exact IH| |exact Hb].
    unfold idle in Hi. destruct (hs s); [reflexivity|discriminate].
Qed.
