(* C18 - invariants of the step relation (counting part): blocked_ = blocks of the main flow + stops + activations
   past their increment; what every activation's fetch_and_inc returned; exclusiveness of the callback. *)
Require Import V.Lib.Base V.C18.Model.
Local Open Scope Z_scope.
Local Arguments Z.add : simpl never.
Local Arguments Z.sub : simpl never.

(* well nested main flow: never more Unblock than Block in a prefix, counted from d blocks held *)
Fixpoint bal (d : Z) (o : list op) : bool :=
  match o with
  | [] => true
  | Block :: r => bal (d + 1) r
  | Unblock _ :: r => (0 <? d) && bal (d - 1) r
  end.

(* ---- reachability: every schedule (list of decisions), every main flow, every answer list, every callback that takes
   blocks itself; the main flow may re-plan at an operation boundary (reach_ops): whatever it does next must be well
   nested relative to the blocks the application holds THEN - so it may release blocks that a callback took ---- *)
Inductive reach (o : list op) (a : list bool) : st -> Prop :=
| reach_init : reach o a (init o a)
| reach_step s d : reach o a s -> reach o a (step true d s)
| reach_cbb s : reach o a s -> reach o a (cb_block s)    (* the running callback calls blockSignals() *)
| reach_ops s o' : reach o a s -> stack s = [] -> mpc_ s = MOp -> bal (depth s) o' = true -> reach o a (set_ops s o').

Definition exec (ds : list Z) (s : st) : st := fold_left (fun s d => step true d s) ds s.

Lemma reach_exec o a ds : forall s, reach o a s -> reach o a (exec ds s).
Proof.
  induction ds as [|d ds IH]; intros s Hs; simpl; [exact Hs|].
  apply IH. now constructor.
Qed.

Definition active (f : hframe) : Z := match h_pc f with HInc => 0 | _ => 1 end.
Fixpoint nactive (k : list hframe) : Z := match k with [] => 0 | f :: r => active f + nactive r end.

(* the blocks a callback took are part of what blocked_ exceeds the entry value by: only the activation whose
   increment returned 0 can have run the callback, and then every block the application holds (dp) is one its callback took *)
Definition extra (dp : Z) (f : hframe) : Z :=
  match h_pc f with HCbEnter => 0 | _ => if h_r f =? 0 then dp else 0 end.   (* about to enter the callback: it has not taken any yet *)

(* b = blocked_ minus the activations above that are past their increment (and the blocks their callbacks took) *)
Fixpoint fr_ok (b dp : Z) (k : list hframe) : Prop :=
  match k with
  | [] => True
  | f :: r => match h_pc f with
              | HInc => fr_ok b dp r
              | _ => h_r f + 1 + extra dp f = b /\ fr_ok (b - 1 - extra dp f) dp r
              end
  end.

Definition in_cb (f : hframe) : bool := match h_pc f with HCbEnter | HCbExit => true | _ => false end.

(* branch taken after the increment, and the record of the delivery *)
Definition br_ok (fa : list (nat * fate)) (f : hframe) : Prop :=
  match h_pc f with
  | HInc => True
  | HCbEnter => h_r f = 0
  | HCbExit => h_r f = 0 /\ In (h_id f, FDelivered (h_sig f)) fa
  | HTest | HWrite => h_r f <> 0
  | HDec => h_r f = 0 -> In (h_id f, FDelivered (h_sig f)) fa
  end.

(* the nested call of unblockSignals sits directly on the main flow *)
Fixpoint def_ok (k : list hframe) : Prop :=
  match k with
  | [] => True
  | f :: r => (r <> [] -> h_def f = false) /\ def_ok r
  end.
Definition has_def (k : list hframe) : bool := existsb h_def k.

Definition def_stop (st : Z) (f : hframe) : Prop :=
  h_def f = true -> match h_pc f with HTest | HWrite => 0 < st | _ => True end.

Record Inv (s : st) : Prop := mkInv {
  i_cnt  : blocked s = depth s + stops s + nactive (stack s);
  i_dep  : 0 <= depth s;
  i_stp  : 0 <= stops s /\ 0 <= cbt s;
  i_bal  : bal (depth s) (ops s) = true;
  i_mpc  : match mpc_ s with MOp => True | MTake _ => depth s <= cbt s | MClear _ _ _ => False end;
  i_fr   : fr_ok (blocked s) (depth s) (stack s);
  i_br   : Forall (br_ok (fates s)) (stack s);
  i_def  : def_ok (stack s);
  i_hd   : has_def (stack s) = true -> depth s <= cbt s;
  i_ds   : Forall (def_stop (stops s + cbt s)) (stack s);
  i_sig  : Forall (fun f => h_sig f <> 0 /\ 0 <= h_r f) (stack s) }.

Lemma nactive_nonneg k : 0 <= nactive k.
Proof. induction k as [|f r IH]; simpl; [lia|]. unfold active. destruct (h_pc f); lia. Qed.

Lemma fr_ok_inactive k : nactive k = 0 -> forall b dp, fr_ok b dp k.
Proof.
  induction k as [|f r IH]; simpl; intros H b dp; [exact I|].
  pose proof (nactive_nonneg r). unfold active in H.
  destruct (h_pc f); try lia. apply IH. lia.
Qed.

Lemma br_ok_mono fa x f : br_ok fa f -> br_ok (x :: fa) f.
Proof. unfold br_ok. destruct (h_pc f); simpl; intuition. Qed.

Lemma Forall_br_mono fa x k : Forall (br_ok fa) k -> Forall (br_ok (x :: fa)) k.
Proof. intro H. eapply Forall_impl; [|exact H]. intros f. apply br_ok_mono. Qed.

Lemma def_stop_mono a b f : a <= b -> def_stop a f -> def_stop b f.
Proof. unfold def_stop. intros Hab H Hd. specialize (H Hd). destruct (h_pc f); auto; lia. Qed.

Lemma inv_init o a : bal 0 o = true -> Inv (init o a).
Proof.
  intro Hb. constructor; simpl; auto; try lia; try discriminate.
Qed.

Lemma inv_arrive d s : d <> 0 -> Inv s -> Inv (arrive d s).
Proof.
  intros Hd [Hc Hdp Hst Hb Hm Hf Hbr Hdef Hhd Hds Hsig].
  constructor; simpl; auto.
  - constructor; [simpl; exact I|exact Hbr].
  - constructor; [unfold def_stop; simpl; discriminate|exact Hds].
  - constructor; [simpl; split; [exact Hd|lia]|exact Hsig].
Qed.

Lemma bal_mono o : forall d, bal d o = true -> bal (d + 1) o = true.
Proof.
  induction o as [|[|dl] r IH]; simpl; intros d H; [reflexivity|apply IH; exact H|].
  apply andb_true_iff in H. destruct H as [H1 H2]. apply Z.ltb_lt in H1. apply andb_true_iff. split; [apply Z.ltb_lt; lia|].
  replace (d + 1 - 1) with (d - 1 + 1) by lia. apply IH. exact H2.
Qed.

Lemma inv_mstep s : stack s = [] -> Inv s -> Inv (mstep true s).
Proof.
  intros Hs [Hc Hdp Hst Hb Hm Hf Hbr Hdef Hhd Hds Hsig].
  unfold mstep. rewrite Hs in *. simpl in *.
  destruct (mpc_ s) as [|dl|dl p pid] eqn:Hmp; [| |contradiction].
  - destruct (ops s) as [|[|dl] o] eqn:Ho.
    + constructor; rewrite ?Hs, ?Hmp, ?Ho; simpl; auto.
    + simpl in Hb. constructor; simpl; rewrite ?Hs; simpl; auto; try lia; try discriminate.
    + simpl in Hb. apply andb_true_iff in Hb. destruct Hb as [Hb1 Hb2]. apply Z.ltb_lt in Hb1.
      constructor; simpl; rewrite ?Hs; simpl; auto; try lia; try discriminate.
      destruct (Z.eqb_spec (blocked s) 1); [lia|exact I].
  - unfold take. destruct (Z.eqb_spec (pending s) 0) as [Hp|Hp]; [|destruct dl].
    + constructor; simpl; rewrite ?Hs; simpl; auto; try discriminate.
    + constructor; simpl; rewrite ?Hs; simpl; auto; try lia.
      all: try (constructor; [try exact I; unfold def_stop; simpl; auto|constructor]).
      all: try (simpl; split; [congruence|lia]). all: try congruence.
    + constructor; simpl; rewrite ?Hs; simpl; auto; try discriminate.
Qed.


Lemma has_def_tail f r : has_def r = true -> has_def (f :: r) = true.
Proof. unfold has_def. simpl. intros ->. apply orb_true_r. Qed.

Ltac frk :=
  first [ apply fr_ok_inactive; lia
        | match goal with H : fr_ok ?b ?d ?r |- fr_ok ?b' ?d ?r => replace b' with b by lia; exact H end ].

Ltac fin :=
  repeat match goal with
  | |- Forall (br_ok _) (_ :: _) => constructor
  | |- Forall (def_stop _) (_ :: _) => constructor
  | |- Forall (fun f => h_sig f <> 0 /\ _) (_ :: _) => constructor; [simpl|]
  | |- Forall (br_ok (_ :: _)) _ => apply Forall_br_mono
  | |- br_ok _ _ => unfold br_ok; simpl
  | |- def_stop _ _ => unfold def_stop; simpl
  | |- _ /\ _ => split
  | |- fr_ok _ _ _ => frk
  | |- In ?x (?x :: _) => left; reflexivity
  | |- Forall (br_ok (if ?c then _ else _)) _ => destruct c
  end; auto; try lia; try (intro; contradiction).

Lemma inv_hstep s f rest : stack s = f :: rest -> Inv s -> Inv (hstep f rest s).
Proof.
  intros Hs [Hc Hdp Hst Hb Hm Hf Hbr Hdef Hhd Hds Hsig].
  rewrite Hs in *. simpl in *.
  inversion Hbr as [|? ? Hbr1 Hbr2]; subst. inversion Hds as [|? ? Hds1 Hds2]; subst.
  inversion Hsig as [|? ? Hsig1 Hsig2]; subst. destruct Hdef as [Hdef1 Hdef2]. destruct Hsig1 as [Hsig1 Hsig1r].
  pose proof (nactive_nonneg rest) as Hn.
  unfold hstep. unfold active in Hc. unfold br_ok in Hbr1. unfold def_stop in Hds1.
  destruct (h_pc f) eqn:Hpc.
  - (* HInc *)
    destruct (Z.eqb_spec (blocked s) 0) as [Hz|Hz].
    + constructor; simpl; unfold active, extra; simpl; rewrite ?Hz; simpl; fin.
    + constructor; simpl; unfold active, extra; simpl; fin.
      * destruct (Z.eqb_spec (blocked s) 0); [contradiction|]. lia.
      * destruct (Z.eqb_spec (blocked s) 0); [contradiction|]. frk.
      * intro Hd.
        destruct rest as [|g rest']; [|specialize (Hdef1 ltac:(discriminate)); congruence].
        rewrite Hd in Hhd. specialize (Hhd eq_refl). simpl in Hc. lia.
  - (* HCbEnter *)
    destruct Hf as [Hf1 Hf2]. unfold extra in Hf1, Hf2. rewrite Hpc in Hf1, Hf2.
    assert (Hd0 : depth s = 0) by lia.
    constructor; simpl; unfold active, set_pc, extra; simpl; rewrite ?Hpc, ?Hbr1, ?Hd0 in *; simpl; fin.
  - (* HCbExit *)
    destruct Hf as [Hf1 Hf2]. destruct Hbr1 as [Hr0 Hin]. unfold extra in Hf1, Hf2. rewrite Hpc, Hr0 in Hf1, Hf2. simpl in Hf1, Hf2.
    destruct (answers s) as [|[|] a] eqn:Ha.
    + constructor; simpl; unfold active, set_pc, extra; simpl; rewrite ?Hpc, ?Hr0; simpl; fin.
    + constructor; simpl; unfold active, set_pc, extra; simpl; rewrite ?Hpc, ?Hr0; simpl; fin.
    + (* stop *)
      constructor; simpl; fin.
      * intro Hd. apply Hhd. rewrite Hd. apply orb_true_r.
      * eapply Forall_impl; [|exact Hds2]. intros g. apply def_stop_mono. lia.
  - (* HTest *)
    destruct Hf as [Hf1 Hf2]. unfold extra in Hf1, Hf2. rewrite Hpc in Hf1, Hf2.
    destruct (h_r f =? 0) eqn:E0; [apply Z.eqb_eq in E0; contradiction|].
    destruct (Z.eqb_spec (pending s) 0) as [Hp|Hp].
    + constructor; simpl; unfold active, set_pc, extra; simpl; rewrite ?Hpc, ?E0; fin.
    + constructor; simpl; unfold active, set_pc, extra; simpl; rewrite ?Hpc, ?E0; fin.
  - (* HWrite *)
    destruct Hf as [Hf1 Hf2]. unfold extra in Hf1, Hf2. rewrite Hpc in Hf1, Hf2.
    destruct (h_r f =? 0) eqn:E0; [apply Z.eqb_eq in E0; contradiction|].
    constructor; simpl; unfold active, set_pc, extra; simpl; rewrite ?Hpc, ?E0; fin.
  - (* HDec *)
    destruct Hf as [Hf1 Hf2]. unfold extra in Hf1, Hf2. rewrite Hpc in Hf1, Hf2.
    destruct (Z.eqb_spec (h_r f) 0) as [Hr0|Hr0].
    + constructor; simpl; fin.
      intro Hd. apply Hhd. rewrite Hd. apply orb_true_r.
    + constructor; simpl; fin.
      intro Hd. apply Hhd. rewrite Hd. apply orb_true_r.
Qed.

Theorem inv_step d s : Inv s -> Inv (step true d s).
Proof.
  intro H. unfold step. destruct (Z.eqb_spec d 0) as [Hd|Hd].
  - destruct (stack s) as [|f rest] eqn:Hs.
    + apply inv_mstep; assumption.
    + apply inv_hstep; assumption.
  - apply inv_arrive; assumption.
Qed.

(* the running callback takes a block *)
Lemma inv_cbb s : Inv s -> Inv (cb_block s).
Proof.
  intros HI. unfold cb_block. destruct (stack s) as [|f rest] eqn:Hs; [exact HI|].
  destruct (h_pc f) eqn:Hpc; try exact HI.
  destruct HI as [Hc Hdp Hst Hb Hm Hf Hbr Hdef Hhd Hds Hsig].
  rewrite Hs in *. simpl in *. rewrite Hpc in Hf.
  inversion Hbr as [|? ? Hbr1 Hbr2]; subst. unfold br_ok in Hbr1. rewrite Hpc in Hbr1. destruct Hbr1 as [Hr0 Hin].
  destruct Hf as [Hf1 Hf2]. unfold extra in Hf1, Hf2. rewrite Hpc, Hr0 in Hf1, Hf2. simpl in Hf1, Hf2.
  pose proof (nactive_nonneg rest) as Hn. unfold active in Hc. rewrite Hpc in Hc.
  constructor; simpl; rewrite ?Hs; simpl; unfold active, extra; rewrite ?Hpc, ?Hr0; simpl; auto; try lia.
  - apply bal_mono. exact Hb.
  - destruct (mpc_ s); auto; lia.
  - split; [lia|]. apply fr_ok_inactive. lia.
  - intro H. specialize (Hhd H). lia.
  - eapply Forall_impl; [|exact Hds]. intros g. apply def_stop_mono. lia.
Qed.

(* the main flow re-plans *)
Lemma inv_ops s o' : Inv s -> bal (depth s) o' = true -> Inv (set_ops s o').
Proof. intros [Hc Hdp Hst Hb Hm Hf Hbr Hdef Hhd Hds Hsig] H. constructor; simpl; auto. Qed.

Theorem reach_inv o a s : bal 0 o = true -> reach o a s -> Inv s.
Proof.
  intros Hb Hr. induction Hr as [|s d Hr IH|s Hr IH|s o' Hr IH Hs Hm Ho];
    [apply inv_init; exact Hb|apply inv_step; exact IH|apply inv_cbb; exact IH|apply inv_ops; assumption].
Qed.
