(* C18 - invariants of the step relation (counting part): blocked_ = blocks of the main flow + stops + activations
   past their increment; what every activation's fetch_and_inc returned; exclusiveness of the callback. *)
Require Import V.Lib.Base V.C18.Model.
Local Open Scope Z_scope.
Local Arguments Z.add : simpl never.
Local Arguments Z.sub : simpl never.

(* ---- reachability: every schedule (list of decisions), every main flow, every answer list ---- *)
Inductive reach (o : list op) (a : list bool) : st -> Prop :=
| reach_init : reach o a (init o a)
| reach_step s d : reach o a s -> reach o a (step true d s).

Definition exec (ds : list Z) (s : st) : st := fold_left (fun s d => step true d s) ds s.

Lemma reach_exec o a ds : forall s, reach o a s -> reach o a (exec ds s).
Proof.
  induction ds as [|d ds IH]; intros s Hs; simpl; [exact Hs|].
  apply IH. now constructor.
Qed.

(* well nested main flow: never more Unblock than Block in a prefix *)
Fixpoint bal (d : Z) (o : list op) : bool :=
  match o with
  | [] => true
  | Block :: r => bal (d + 1) r
  | Unblock _ :: r => (0 <? d) && bal (d - 1) r
  end.

Definition active (f : hframe) : Z := match h_pc f with HInc => 0 | _ => 1 end.
Fixpoint nactive (k : list hframe) : Z := match k with [] => 0 | f :: r => active f + nactive r end.

(* b = blocked_ minus the activations above that are past their increment *)
Fixpoint fr_ok (b : Z) (k : list hframe) : Prop :=
  match k with
  | [] => True
  | f :: r => match h_pc f with
              | HInc => fr_ok b r
              | _ => h_r f + 1 = b /\ fr_ok (b - 1) r
              end
  end.

Definition in_cb (f : hframe) : bool := match h_pc f with HCbEnter | HCbExit => true | _ => false end.

(* branch taken after the increment, and the record of the delivery *)
Definition br_ok (fa : list (nat * fate)) (f : hframe) : Prop :=
  match h_pc f with
  | HInc => True
  | HCbEnter => h_r f = 0
  | HCbExit => h_r f = 0 /\ In (h_id f, FDelivered (h_sig f)) fa
  | HTest | HWrite => h_r f <> 0
  | HDec => h_r f = 0 -> In (h_id f, FDelivered (h_sig f)) fa
  end.

(* the nested call of unblockSignals sits directly on the main flow *)
Fixpoint def_ok (k : list hframe) : Prop :=
  match k with
  | [] => True
  | f :: r => (r <> [] -> h_def f = false) /\ def_ok r
  end.
Definition has_def (k : list hframe) : bool := existsb h_def k.

Definition def_stop (st : Z) (f : hframe) : Prop :=
  h_def f = true -> match h_pc f with HTest | HWrite => 0 < st | _ => True end.

Record Inv (s : st) : Prop := mkInv {
  i_cnt  : blocked s = depth s + stops s + nactive (stack s);
  i_dep  : 0 <= depth s;
  i_stp  : 0 <= stops s;
  i_bal  : bal (depth s) (ops s) = true;
  i_mpc  : match mpc_ s with MOp => True | MTake _ => depth s = 0 | MClear _ _ _ => False end;
  i_fr   : fr_ok (blocked s) (stack s);
  i_br   : Forall (br_ok (fates s)) (stack s);
  i_def  : def_ok (stack s);
  i_hd   : has_def (stack s) = true -> depth s = 0;
  i_ds   : Forall (def_stop (stops s)) (stack s);
  i_sig  : Forall (fun f => h_sig f <> 0) (stack s) }.

Lemma nactive_nonneg k : 0 <= nactive k.
Proof. induction k as [|f r IH]; simpl; [lia|]. unfold active. destruct (h_pc f); lia. Qed.

Lemma fr_ok_inactive k : nactive k = 0 -> forall b, fr_ok b k.
Proof.
  induction k as [|f r IH]; simpl; intros H b; [exact I|].
  pose proof (nactive_nonneg r). unfold active in H.
  destruct (h_pc f); try lia. apply IH. lia.
Qed.

Lemma br_ok_mono fa x f : br_ok fa f -> br_ok (x :: fa) f.
Proof. unfold br_ok. destruct (h_pc f); simpl; intuition. Qed.

Lemma Forall_br_mono fa x k : Forall (br_ok fa) k -> Forall (br_ok (x :: fa)) k.
Proof. intro H. eapply Forall_impl; [|exact H]. intros f. apply br_ok_mono. Qed.

Lemma def_stop_mono a b f : a <= b -> def_stop a f -> def_stop b f.
Proof. unfold def_stop. intros Hab H Hd. specialize (H Hd). destruct (h_pc f); auto; lia. Qed.

Lemma inv_init o a : bal 0 o = true -> Inv (init o a).
Proof.
  intro Hb. constructor; simpl; auto; try lia; try discriminate.
Qed.

Lemma inv_arrive d s : d <> 0 -> Inv s -> Inv (arrive d s).
Proof.
  intros Hd [Hc Hdp Hst Hb Hm Hf Hbr Hdef Hhd Hds Hsig].
  constructor; simpl; auto.
  - constructor; [simpl; exact I|exact Hbr].
  - constructor; [unfold def_stop; simpl; discriminate|exact Hds].
Qed.

Lemma inv_mstep s : stack s = [] -> Inv s -> Inv (mstep true s).
Proof.
  intros Hs [Hc Hdp Hst Hb Hm Hf Hbr Hdef Hhd Hds Hsig].
  unfold mstep. rewrite Hs in *. simpl in *.
  destruct (mpc_ s) as [|dl|dl p pid] eqn:Hmp; [| |contradiction].
  - destruct (ops s) as [|[|dl] o] eqn:Ho.
    + constructor; rewrite ?Hs, ?Hmp, ?Ho; simpl; auto.
    + simpl in Hb. constructor; simpl; rewrite ?Hs; simpl; auto; try lia.
    + simpl in Hb. apply andb_true_iff in Hb. destruct Hb as [Hb1 Hb2]. apply Z.ltb_lt in Hb1.
      constructor; simpl; rewrite ?Hs; simpl; auto; try lia.
      destruct (Z.eqb_spec (blocked s) 1); [lia|exact I].
  - unfold take. destruct (Z.eqb_spec (pending s) 0) as [Hp|Hp]; [|destruct dl].
    + constructor; simpl; rewrite ?Hs; simpl; auto.
    + constructor; simpl; rewrite ?Hs; simpl; auto; try lia.
      all: try (constructor; [try exact I; unfold def_stop; simpl; auto|constructor]).
      congruence.
    + constructor; simpl; rewrite ?Hs; simpl; auto.
Qed.


Lemma has_def_tail f r : has_def r = true -> has_def (f :: r) = true.
Proof. unfold has_def. simpl. intros ->. apply orb_true_r. Qed.

Ltac fin :=
  repeat match goal with
  | |- Forall (br_ok _) (_ :: _) => constructor
  | |- Forall (def_stop _) (_ :: _) => constructor
  | |- Forall (br_ok (_ :: _)) _ => apply Forall_br_mono
  | |- br_ok _ _ => unfold br_ok; simpl
  | |- def_stop _ _ => unfold def_stop; simpl
  | |- _ /\ _ => split
  | |- fr_ok (?b + 1 - 1) _ => replace (b + 1 - 1) with b by lia
  | |- In ?x (?x :: _) => left; reflexivity
  | |- Forall (br_ok (if ?c then _ else _)) _ => destruct c
  end; auto; try lia; try (intro; contradiction).

Lemma inv_hstep s f rest : stack s = f :: rest -> Inv s -> Inv (hstep f rest s).
Proof.
  intros Hs [Hc Hdp Hst Hb Hm Hf Hbr Hdef Hhd Hds Hsig].
  rewrite Hs in *. simpl in *.
  inversion Hbr as [|? ? Hbr1 Hbr2]; subst. inversion Hds as [|? ? Hds1 Hds2]; subst.
  inversion Hsig as [|? ? Hsig1 Hsig2]; subst. destruct Hdef as [Hdef1 Hdef2].
  unfold hstep. unfold active in Hc. unfold br_ok in Hbr1. unfold def_stop in Hds1.
  destruct (h_pc f) eqn:Hpc.
  - (* HInc *)
    destruct (Z.eqb_spec (blocked s) 0) as [Hz|Hz].
    + constructor; simpl; unfold active; simpl; fin.
    + constructor; simpl; unfold active; simpl; fin.
      intro Hd.
      destruct rest as [|g rest']; [|specialize (Hdef1 ltac:(discriminate)); congruence].
      rewrite Hd in Hhd. specialize (Hhd eq_refl). simpl in Hc. lia.
  - (* HCbEnter *)
    destruct Hf as [Hf1 Hf2].
    constructor; simpl; unfold active, set_pc; simpl; rewrite ?Hpc; fin.
  - (* HCbExit *)
    destruct Hf as [Hf1 Hf2]. destruct Hbr1 as [Hr0 Hin].
    destruct (answers s) as [|[|] a] eqn:Ha.
    + constructor; simpl; unfold active, set_pc; simpl; rewrite ?Hpc; fin.
    + constructor; simpl; unfold active, set_pc; simpl; rewrite ?Hpc; fin.
    + (* stop *)
      pose proof (nactive_nonneg rest) as Hn.
      constructor; simpl; fin.
      * apply fr_ok_inactive. lia.
      * eapply Forall_impl; [|exact Hds2]. intros g. apply def_stop_mono. lia.
  - (* HTest *)
    destruct Hf as [Hf1 Hf2].
    destruct (Z.eqb_spec (pending s) 0) as [Hp|Hp].
    + constructor; simpl; unfold active, set_pc; simpl; rewrite ?Hpc; fin.
    + constructor; simpl; unfold active, set_pc; simpl; rewrite ?Hpc; fin.
  - (* HWrite *)
    destruct Hf as [Hf1 Hf2].
    constructor; simpl; unfold active, set_pc; simpl; rewrite ?Hpc; fin.
  - (* HDec *)
    destruct Hf as [Hf1 Hf2].
    constructor; simpl; fin.
    intro Hd. apply Hhd. rewrite Hd. apply orb_true_r.
Qed.

Theorem inv_step d s : Inv s -> Inv (step true d s).
Proof.
  intro H. unfold step. destruct (Z.eqb_spec d 0) as [Hd|Hd].
  - destruct (stack s) as [|f rest] eqn:Hs.
    + apply inv_mstep; assumption.
    + apply inv_hstep; assumption.
  - apply inv_arrive; assumption.
Qed.

Theorem reach_inv o a s : bal 0 o = true -> reach o a s -> Inv s.
Proof.
  intros Hb Hr. induction Hr as [|s d Hr IH]; [apply inv_init; exact Hb|apply inv_step; exact IH].
Qed.
