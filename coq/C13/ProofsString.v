(* C13 - tokenising a rendered command string gives back the tokens. *)
Require Import V.Lib.Base V.Gen.Consts_C14 V.Gen.Consts_C13 V.C14.Model V.C13.Model V.C13.Spec.
Local Open Scope Z_scope.

Lemma scan_cons x r t acc : scan_tok (x :: r) t acc =
  if x =? t then (if t =? SEP then (acc, x :: r) else scan_tok r SEP acc)
  else if is_quote x && (t =? SEP) then scan_tok r x acc
  else if negb (x =? BSLASH) then scan_tok r t (acc ++ [x])
  else match r with
       | n :: r' => if is_escapable n then scan_tok r' t (acc ++ [n]) else scan_tok r t (acc ++ [x])
       | [] => scan_tok r t (acc ++ [x])
       end.
Proof. reflexivity. Qed.

Definition state_ok (t : Z) : Prop := t = SEP \/ is_quote t = true.

Lemma quote_cases q : is_quote q = true -> q = QUOTE1 \/ q = QUOTE2.
Proof. unfold is_quote. intros H. apply orb_true_iff in H. destruct H as [H|H]; apply Z.eqb_eq in H; auto. Qed.

Lemma scan_esc tok : forall t acc rest, state_ok t -> (t = SEP -> Forall (fun x => x <> SEP) tok) ->
  scan_tok (esc tok ++ rest) t acc = scan_tok rest t (acc ++ tok).
Proof.
  induction tok as [|x r IH]; intros t acc rest Ht Hs; simpl esc.
  - rewrite app_nil_r. reflexivity.
  - assert (Hs' : t = SEP -> Forall (fun x => x <> SEP) r) by (intros E; specialize (Hs E); inversion Hs; assumption).
    assert (Hbt : (BSLASH =? t) = false).
    { apply Z.eqb_neq. destruct Ht as [->|Hq]; [unfold BSLASH, SEP; lia|]. destruct (quote_cases t Hq) as [->| ->]; unfold BSLASH, QUOTE1, QUOTE2; lia. }
    destruct (is_escapable x) eqn:Ee.
    + simpl app. rewrite scan_cons. rewrite Hbt. change (is_quote BSLASH) with false. simpl andb. rewrite Z.eqb_refl. simpl negb. cbv iota.
      rewrite Ee. rewrite IH by assumption. rewrite <- app_assoc. reflexivity.
    + simpl app. rewrite scan_cons.
      unfold is_escapable in Ee. apply orb_false_iff in Ee. destruct Ee as [Eq Eb].
      assert (Hxt : (x =? t) = false).
      { apply Z.eqb_neq. destruct Ht as [E|Hq].
        - specialize (Hs E). inversion Hs; subst. assumption.
        - intros E. subst x. congruence. }
      rewrite Hxt, Eq. simpl andb. rewrite Eb. simpl negb. cbv iota. rewrite IH by assumption. rewrite <- app_assoc. reflexivity.
Qed.

Definition boundary (rest : list Z) : Prop := rest = [] \/ exists m, rest = SEP :: m.

Lemma scan_boundary rest acc : boundary rest -> scan_tok rest SEP acc = (acc, rest).
Proof. intros [->|[m ->]]; [reflexivity|]. rewrite scan_cons, Z.eqb_refl. reflexivity. Qed.

Lemma space_not_sep t : Forall (fun x => is_space x = false) t -> Forall (fun x => x <> SEP) t.
Proof. apply Forall_impl. intros x H E. subst x. discriminate H. Qed.

Lemma scan_render s t rest : style_ok s t -> boundary rest -> scan_tok (render_tok s t ++ rest) SEP [] = (t, rest).
Proof.
  intros Hs Hb. destruct s as [|q]; unfold render_tok, style_ok in *.
  - destruct Hs as [_ Hsp]. rewrite scan_esc; [|left; reflexivity|intros _; apply space_not_sep; exact Hsp].
    apply scan_boundary. exact Hb.
  - rewrite <- app_comm_cons. rewrite scan_cons.
    assert (Hq : (q =? SEP) = false) by (apply Z.eqb_neq; destruct (quote_cases q Hs) as [->| ->]; unfold QUOTE1, QUOTE2, SEP; lia).
    rewrite Hq, Hs, Z.eqb_refl. simpl andb. cbv iota. rewrite <- app_assoc. simpl app.
    rewrite scan_esc; [|right; exact Hs|intros E; rewrite E in Hq; rewrite Z.eqb_refl in Hq; discriminate].
    rewrite scan_cons, Z.eqb_refl, Hq. simpl app. apply scan_boundary. exact Hb.
Qed.

Lemma render_head s t : style_ok s t -> exists x r, render_tok s t = x :: r /\ is_space x = false.
Proof.
  intros Hs. destruct s as [|q]; simpl in *.
  - destruct Hs as [Hne Hsp]. destruct t as [|x r]; [congruence|]. inversion Hsp; subst. simpl.
    destruct (is_escapable x); [exists BSLASH; eexists; split; [reflexivity|reflexivity]|exists x; eexists; split; [reflexivity|assumption]].
  - exists q. eexists. split; [reflexivity|]. destruct (quote_cases q Hs) as [->| ->]; reflexivity.
Qed.

Lemma tokenize_step s t rest f : style_ok s t -> boundary rest ->
  tokenize_f (S f) (render_tok s t ++ rest) = t :: tokenize_f f rest.
Proof.
  intros Hs Hb. destruct (render_head s t Hs) as (x & r & Hr & Hx).
  cbn [tokenize_f]. assert (Hsk : skip_space (render_tok s t ++ rest) = render_tok s t ++ rest).
  { rewrite Hr. simpl. rewrite Hx. reflexivity. }
  rewrite Hsk. destruct (render_tok s t ++ rest) as [|z l] eqn:E.
  - rewrite Hr in E. discriminate.
  - cbv iota. rewrite <- E. rewrite (scan_render s t rest Hs Hb). reflexivity.
Qed.

Lemma tokenize_sep f l : tokenize_f f (SEP :: l) = tokenize_f f l.
Proof. destruct f; reflexivity. Qed.

Lemma tokenize_join sts : Forall (fun st => style_ok (fst st) (snd st)) sts ->
  forall fuel, (length sts < fuel)%nat -> tokenize_f fuel (quote_join sts) = map snd sts.
Proof.
  induction 1 as [|[s t] r Hs Hr IH]; intros fuel Hf.
  - destruct fuel; reflexivity.
  - destruct fuel as [|f]; [simpl in Hf; lia|]. simpl in Hs. destruct r as [|[s2 t2] r2].
    + simpl quote_join. rewrite <- (app_nil_r (render_tok s t)). rewrite (tokenize_step s t [] f Hs (or_introl eq_refl)).
      simpl. destruct f; reflexivity.
    + change (quote_join ((s, t) :: (s2, t2) :: r2)) with (render_tok s t ++ SEP :: quote_join ((s2, t2) :: r2)).
      rewrite (tokenize_step s t _ f Hs (or_intror (ex_intro _ _ eq_refl))). rewrite tokenize_sep.
      rewrite IH by (simpl in *; lia). reflexivity.
Qed.

Lemma join_length sts : Forall (fun st => style_ok (fst st) (snd st)) sts -> (length sts <= length (quote_join sts))%nat.
Proof.
  induction 1 as [|[s t] r Hs Hr IH]; [simpl; lia|]. simpl in Hs. destruct (render_head s t Hs) as (x & rr & Hrr & _).
  destruct r as [|[s2 t2] r2].
  - simpl. rewrite Hrr. simpl. lia.
  - change (quote_join ((s, t) :: (s2, t2) :: r2)) with (render_tok s t ++ SEP :: quote_join ((s2, t2) :: r2)).
    rewrite app_length, Hrr. simpl length in *. lia.
Qed.

Theorem string_thm sts : Forall (fun st => style_ok (fst st) (snd st)) sts -> tokenize (quote_join sts) = map snd sts.
Proof.
  intros H. unfold tokenize. apply tokenize_join; [exact H|]. pose proof (join_length sts H). lia.
Qed.
