(* C13 - executable model of the command-line, command-string and config-file parsers of
   src/program_options.cpp (CommandLineParser, ArgvParser, CommandStringParser, CfgFileParser, DefaultContext,
   parseCommandLine/parseCommandArray/parseCommandString/parseCfgFile).  Lookup = the C14 model (V.C14.Model).

   Tokens are byte lists.  The C++ parser pulls tokens with next(); "the option needs the next token as value and
   next() returned 0" is modelled by the parser state Need (missing value when the tokens run out), so the main loop is
   structurally recursive on the token list.  Exceptions abort the parse (no partial result): Err.
   Definitions only.                                                                                          *)
Require Import V.Lib.Base V.Gen.Consts_C14 V.Gen.Consts_C13 V.C14.Model.
Local Open Scope Z_scope.

Definition token := list Z.
(* Value properties that the parsers look at: isImplicit, isFlag (flag => implicit), isNegatable *)
Record attr := mkAttr { a_implicit : bool; a_flag : bool; a_neg : bool }.
Inductive perr := EUnknown | EAmbiguous | EMissing | EExtra | EFormat.
Inductive presult := POk (pairs : list (nat * token)) (rem : list token) | PErr (e : perr).

Section Parser.
Variable c : ctx.                       (* the OptionContext *)
Variable attrs : list attr.             (* properties of option i *)
Variable allow_unreg : bool.            (* DefaultContext(o, allowUnreg, po) *)
Variable pos : option (token -> option (list Z)).   (* PosOption: 0, or a function that names the receiving option or fails *)
Variable allow_flag_value : bool.       (* flags & command_line_allow_flag_value *)

Definition attr_of (i : nat) : attr := nth i attrs (mkAttr false false false).
Definition is_implicit (i : nat) : bool := a_implicit (attr_of i) || a_flag (attr_of i).
Definition is_flag (i : nat) : bool := a_flag (attr_of i).
Definition is_negatable (i : nat) : bool := a_neg (attr_of i).

(* SharedOptPtr DefaultContext::getOption(const char* name, FindType ft) *)
Definition get_opt (key : list Z) (t : Z) : lookup := get_option allow_unreg key t c.

(* ---- handleLongOpt(optName) : optName = the token without the leading "--" ---- *)
Fixpoint split_eq (l : list Z) : list Z * option (list Z) :=      (* name.find('=') *)
  match l with
  | [] => ([], None)
  | x :: r => if x =? EQ then ([], Some r)
              else let '(n, v) := split_eq r in (x :: n, v)
  end.

Inductive lres := LAdd (i : nat) (v : token) | LNeed (i : nat) | LKeep | LErr (e : perr).

Definition long_use (i : nat) (value : token) (neg : bool) : lres :=
  if negb (is_implicit i) && is_nil value then LNeed i
  else if is_flag i && negb (is_nil value) && negb neg && negb allow_flag_value then LErr EExtra
  else LAdd i value.

Definition handle_long (body : list Z) : lres :=
  let '(name, ov) := split_eq body in
  let value := match ov with Some v => v | None => [] end in
  let on := if is_nil value && is_prefix NO_PREFIX body then
              match get_opt (skipn (length NO_PREFIX) body) find_name_or_prefix with   (* try {...} catch (...) {} *)
              | Found i => if is_negatable i then Some i else None
              | _ => None
              end
            else None in
  match get_opt name find_name_or_prefix with
  | Ambiguous _ => LErr EAmbiguous
  | Unknown => match on with Some i => long_use i NO_VALUE true | None => LErr EUnknown end
  | NotFound => match on with Some i => long_use i NO_VALUE true | None => LKeep end
  | Found i => long_use i value false
  end.

(* ---- handleShortOpt(optName) : the token without the leading "-" ---- *)
Inductive sres := SDone (ps : list (nat * token)) | SNeed (ps : list (nat * token)) (i : nat) | SKeep (ps : list (nat * token)) | SErr (e : perr).

Fixpoint short_loop (cs : list Z) (acc : list (nat * token)) : sres :=
  match cs with
  | [] => SDone acc
  | ch :: val =>
      match get_opt [ch] find_alias with
      | Found i =>
          if is_implicit i then
            if negb (is_flag i) then SDone (acc ++ [(i, val)])
            else short_loop val (acc ++ [(i, [])])
          else match val with
               | [] => SNeed acc i
               | _ => SDone (acc ++ [(i, val)])
               end
      | NotFound => SKeep acc
      | Unknown => SErr EUnknown
      | Ambiguous _ => SErr EAmbiguous
      end
  end.

(* ---- getOptionType ---- *)
Inductive tclass := TEnd | TLong (body : list Z) | TShort (body : list Z) | TPos.
Definition classify (t : token) : tclass :=
  match t with
  | a :: b :: r => if (a =? DASH) && (b =? DASH) then match r with [] => TEnd | _ => TLong r end
                   else if a =? DASH then TShort (b :: r) else TPos
  | _ => TPos
  end.

(* SharedOptPtr DefaultContext::getOption(int, const char* tok) *)
Definition pos_lookup (t : token) : lookup :=
  let name := match pos with
              | None => POS_OPTION
              | Some f => match f t with Some n => n | None => POS_OPTION end
              end in
  get_opt name find_name_or_prefix.

Inductive pstate := Normal | Need (i : nat) | AfterEnd.

(* CommandLineParser::doParse *)
Fixpoint parse_l (toks : list token) (st : pstate) (pairs : list (nat * token)) (rem : list token) : presult :=
  match toks with
  | [] => match st with Need _ => PErr EMissing | _ => POk pairs rem end
  | t :: r =>
      match st with
      | Need i => parse_l r Normal (pairs ++ [(i, t)]) rem
      | AfterEnd => parse_l r AfterEnd pairs (rem ++ [t])
      | Normal =>
          match classify t with
          | TEnd => parse_l r AfterEnd pairs rem
          | TLong body =>
              match handle_long body with
              | LAdd i v => parse_l r Normal (pairs ++ [(i, v)]) rem
              | LNeed i => parse_l r (Need i) pairs rem
              | LKeep => parse_l r Normal pairs (rem ++ [t])
              | LErr e => PErr e
              end
          | TShort body =>
              match short_loop body [] with
              | SDone ps => parse_l r Normal (pairs ++ ps) rem
              | SNeed ps i => parse_l r (Need i) (pairs ++ ps) rem
              | SKeep ps => parse_l r Normal (pairs ++ ps) (rem ++ [t])
              | SErr e => PErr e
              end
          | TPos =>
              match pos_lookup t with
              | Found i => parse_l r Normal (pairs ++ [(i, t)]) rem
              | NotFound => parse_l r Normal pairs (rem ++ [t])
              | Unknown => PErr EUnknown
              | Ambiguous _ => PErr EAmbiguous
              end
          end
      end
  end.

Definition parse_argv (toks : list token) : presult := parse_l toks Normal [] [].

(* parseCommandLine(argc, argv, ...): parses argv[1..argc) and rewrites argv to argv[0] followed by the remaining
   arguments (argv[argc] = 0); an exception leaves argv as it was *)
Definition command_line (argv : list token) : presult * list token :=
  match argv with
  | [] => (parse_argv [], [])
  | a0 :: args => match parse_argv args with
                  | POk ps rem => (POk ps rem, a0 :: rem)
                  | PErr e => (PErr e, argv)
                  end
  end.
End Parser.

(* ---- CommandStringParser::next ---- *)
Definition is_space (x : Z) : bool := (x =? 32) || ((9 <=? x) && (x <=? 13)).    (* std::isspace, C locale *)
Definition is_quote (x : Z) : bool := (x =? QUOTE1) || (x =? QUOTE2).
Definition is_escapable (x : Z) : bool := is_quote x || (x =? BSLASH).

(* scans one token; t = SEP outside quotes, else the open quote; returns (token, unread rest) *)
Fixpoint scan_tok (l : list Z) (t : Z) (acc : list Z) : list Z * list Z :=
  match l with
  | [] => (acc, [])
  | x :: r =>
      if x =? t then (if t =? SEP then (acc, l) else scan_tok r SEP acc)
      else if is_quote x && (t =? SEP) then scan_tok r x acc
      else if negb (x =? BSLASH) then scan_tok r t (acc ++ [x])
      else match r with
           | n :: r' => if is_escapable n then scan_tok r' t (acc ++ [n]) else scan_tok r t (acc ++ [x])
           | [] => scan_tok r t (acc ++ [x])
           end
  end.

Fixpoint skip_space (l : list Z) : list Z :=
  match l with
  | x :: r => if is_space x then skip_space r else l
  | [] => []
  end.

Fixpoint tokenize_f (fuel : nat) (l : list Z) : list token :=
  match fuel with
  | O => []
  | S f => match skip_space l with
           | [] => []
           | l' => let '(tok, rest) := scan_tok l' SEP [] in tok :: tokenize_f f rest
           end
  end.
Definition tokenize (l : list Z) : list token := tokenize_f (S (length l)) l.

(* parseCommandString: the same parser over the tokens that CommandStringParser::next() delivers *)
Definition parse_string (c : ctx) (attrs : list attr) (allow_unreg : bool) (pos : option (token -> option (list Z)))
                        (allow_flag_value : bool) (cmd : list Z) : presult :=
  parse_argv c attrs allow_unreg pos allow_flag_value (tokenize cmd).

(* ---- CfgFileParser ---- *)
Fixpoint mem (x : Z) (l : list Z) : bool := match l with [] => false | y :: r => (x =? y) || mem x r end.
Fixpoint trim_left (cs : list Z) (l : list Z) : list Z :=
  match l with
  | x :: r => if mem x cs then trim_left cs r else l
  | [] => []
  end.
(* find_last_not_of == npos (only blanks): the string is left unchanged *)
Definition trim_right (cs : list Z) (l : list Z) : list Z :=
  match trim_left cs (rev l) with [] => l | t => rev t end.

(* std::getline: split at '\n'; a trailing newline does not start another line *)
Fixpoint lines_aux (l : list Z) (cur : list Z) : list (list Z) :=
  match l with
  | [] => match cur with [] => [] | _ => [cur] end
  | x :: r => if x =? 10 then cur :: lines_aux r [] else lines_aux r (cur ++ [x])
  end.
Definition lines (l : list Z) : list (list Z) := lines_aux l [].

Section Cfg.
Variable c : ctx.
Variable allow_unreg : bool.

Inductive flush_res := FlOk (ps : list (nat * token)) | FlErr (e : perr).
(* if ((opt = getOption(sectionName, ft)).get()) addOptionValue(opt, sectionValue); *)
Definition flush (sec : option (list Z * list Z)) (pairs : list (nat * token)) : flush_res :=
  match sec with
  | None => FlOk pairs
  | Some (name, value) =>
      match get_option allow_unreg name find_name_or_prefix c with
      | Found i => FlOk (pairs ++ [(i, value)])
      | NotFound => FlOk pairs
      | Unknown => FlErr EUnknown
      | Ambiguous _ => FlErr EAmbiguous
      end
  end.

Fixpoint cfg_loop (ls : list (list Z)) (sec : option (list Z * list Z)) (pairs : list (nat * token)) : presult :=
  match ls with
  | [] => match flush sec pairs with FlOk ps => POk ps [] | FlErr e => PErr e end
  | raw :: r =>
      let line := trim_right CFG_BLANKS (trim_left CFG_BLANKS raw) in
      if is_nil line || (Z.eqb (hd 0 line) CFG_COMMENT && negb (is_nil line)) then
        match flush sec pairs with FlOk ps => cfg_loop r None ps | FlErr e => PErr e end
      else if mem CFG_SEP line then
        match flush sec pairs with
        | FlErr e => PErr e
        | FlOk ps =>
            let '(n, ov) := split_eq line in
            let v := match ov with Some v => v | None => [] end in
            cfg_loop r (Some (trim_right CFG_BLANKS n, trim_left CFG_VALUE_BLANKS v)) ps
        end
      else match sec with
           | Some (n, v) => cfg_loop r (Some (n, v ++ CFG_JOIN ++ line)) pairs
           | None => PErr EFormat
           end
  end.
Definition parse_cfg (text : list Z) : presult := cfg_loop (lines text) None [].
End Cfg.

(* ---- case decoding (see harness/h_c13.cpp) ----
   nopts (<name> alias kind neg)*  nalias (<name> idx)*  allowUnreg flags posmode <posname> mode payload [intent ...]
   kind: 0 flag, 1 implicit, 2 required.  posmode: 0 = no handler, 1 = handler names <posname> for every token,
   2 = handler rejects every token, 3 = handler names <posname> for tokens starting with a digit and rejects the others.
   mode: 0 parseCommandLine (argv[0] = "prog"), 1 parseCommandArray, 2 parseCommandString, 3 parseCfgFile.
   payload: modes 0,1: ntoks <tok>*; modes 2,3: <bytes>.   Anything behind the payload (the generator's intent) is ignored. *)
Fixpoint get_popts (n : nat) (l : list Z) : list (opt * attr) * list Z :=
  match n with
  | O => ([], l)
  | S m => let '(nm, r1) := get_str l in
           match r1 with
           | a :: k :: ng :: r2 =>
               let '(os, r3) := get_popts m r2 in
               ((mkOpt nm a, mkAttr (k =? 1) (k =? 0) (negb (ng =? 0))) :: os, r3)
           | _ => ([], [])
           end
  end.
Fixpoint get_aliases (n : nat) (l : list Z) : list (list Z * nat) * list Z :=
  match n with
  | O => ([], l)
  | S m => let '(nm, r1) := get_str l in
           match r1 with
           | i :: r2 => let '(als, r3) := get_aliases m r2 in ((nm, Z.to_nat i) :: als, r3)
           | [] => ([], [])
           end
  end.
Fixpoint get_toks (n : nat) (l : list Z) : list token * list Z :=
  match n with
  | O => ([], l)
  | S m => let '(t, r1) := get_str l in let '(ts, r2) := get_toks m r1 in (t :: ts, r2)
  end.
Fixpoint add_aliases (als : list (list Z * nat)) (c : ctx) : option ctx :=
  match als with
  | [] => Some c
  | (n, i) :: r => match add_alias n i c with (c1, None) => add_aliases r c1 | (_, Some _) => None end
  end.

Definition pos_fun (mode : Z) (name : list Z) : option (token -> option (list Z)) :=
  if mode =? 1 then Some (fun _ => Some name)
  else if mode =? 2 then Some (fun _ => None)
  else if mode =? 3 then Some (fun t => if is_digit (hd 0 t) then Some name else None)
  else None.

Definition err_code (e : perr) : Z :=
  match e with EUnknown => 1 | EAmbiguous => 2 | EMissing => 3 | EExtra => 4 | EFormat => 5 end.
Definition enc_pairs (ps : list (nat * token)) : list Z :=
  Z.of_nat (length ps) :: flat_map (fun p => Z.of_nat (fst p) :: enc_str (snd p)) ps.
Definition enc_toks (ts : list token) : list Z := Z.of_nat (length ts) :: flat_map enc_str ts.
Definition enc_res (with_rem : bool) (r : presult) : list Z :=
  match r with
  | POk ps rem => 0 :: enc_pairs ps ++ (if with_rem then enc_toks rem else [])
  | PErr e => [err_code e]
  end.

Definition run_case (l : list Z) : list Z :=
  match l with
  | n :: r0 =>
      let '(oas, r1) := get_popts (Z.to_nat n) r0 in
      match r1 with
      | na :: r2 =>
          let '(als, r3) := get_aliases (Z.to_nat na) r2 in
          match r3 with
          | allow :: fl :: pm :: r4 =>
              let '(pname, r5) := get_str r4 in
              match r5 with
              | mode :: r6 =>
                  let '(c1, e) := add_group [] (map fst oas) empty_ctx in
                  match e with
                  | Some _ => [8]
                  | None =>
                      match add_aliases als c1 with
                      | None => [8]
                      | Some c =>
                          let attrs := map snd oas in
                          let allow_b := negb (allow =? 0) in
                          let afv := negb (Z.land fl command_line_allow_flag_value =? 0) in
                          let p := pos_fun pm pname in
                          if (mode =? 0) || (mode =? 1) then
                            match r6 with
                            | nt :: r7 => let '(toks, _) := get_toks (Z.to_nat nt) r7 in
                                          if mode =? 0 then
                                            let '(r, argv') := command_line c attrs allow_b p afv ([112; 114; 111; 103] :: toks) in
                                            match r with
                                            | POk ps _ => 0 :: enc_pairs ps ++ enc_toks (tl argv')
                                            | PErr e => [err_code e]
                                            end
                                          else enc_res false (parse_argv c attrs allow_b p afv toks)
                            | [] => []
                            end
                          else if mode =? 2 then
                            let '(s, _) := get_str r6 in enc_res false (parse_string c attrs allow_b p afv s)
                          else
                            let '(s, _) := get_str r6 in enc_res false (parse_cfg c allow_b s)
                      end
                  end
              | [] => []
              end
          | _ => []
          end
      | [] => []
      end
  | [] => []
  end.
