(* C13 - config files: sections 'key = value' with continuation lines, comments and blank lines give back their pairs. *)
Require Import V.Lib.Base V.Gen.Consts_C14 V.Gen.Consts_C13 V.C14.Model V.C13.Model V.C13.Spec V.C13.ProofsArgv.
Local Open Scope Z_scope.

(* ---- trimming ---- *)
Lemma trim_left_run cs b x : Forall (fun y => mem y cs = true) b -> mem (hd 0 x) cs = false -> trim_left cs (b ++ x) = x.
Proof.
  induction 1 as [|y b Hy _ IH]; intros Hx; simpl.
  - destruct x as [|z r]; [reflexivity|]. simpl in Hx. simpl. rewrite Hx. reflexivity.
  - rewrite Hy. apply IH. exact Hx.
Qed.

Lemma trim_left_all cs b : Forall (fun y => mem y cs = true) b -> trim_left cs b = [].
Proof. induction 1 as [|y b Hy _ IH]; simpl; [reflexivity|]. rewrite Hy. exact IH. Qed.

Lemma hd_rev_last (x : list Z) : hd 0 (rev x) = last x 0.
Proof.
  induction x as [|a x IH]; [reflexivity|]. simpl rev. destruct x as [|b x']; [reflexivity|].
  change (last (a :: b :: x') 0) with (last (b :: x') 0). rewrite <- IH.
  destruct (rev (b :: x')) eqn:E; [|reflexivity]. apply (f_equal (@length Z)) in E. rewrite rev_length in E. discriminate.
Qed.

Lemma Forall_rev_local {A} (P : A -> Prop) l : Forall P l -> Forall P (rev l).
Proof. intros H. apply Forall_forall. intros x Hx. apply in_rev in Hx. rewrite Forall_forall in H. apply H. exact Hx. Qed.

Lemma trim_right_run cs x b : Forall (fun y => mem y cs = true) b -> x <> [] -> mem (last x 0) cs = false ->
  trim_right cs (x ++ b) = x.
Proof.
  intros Hb Hne Hl. unfold trim_right. rewrite rev_app_distr.
  rewrite (trim_left_run cs (rev b) (rev x)); [|apply Forall_rev_local; exact Hb|rewrite hd_rev_last; exact Hl].
  destruct (rev x) eqn:E.
  - apply (f_equal (@rev Z)) in E. rewrite rev_involutive in E. simpl in E. congruence.
  - rewrite <- E. apply rev_involutive.
Qed.

Lemma trim_right_tight cs x : x <> [] -> mem (last x 0) cs = false -> trim_right cs x = x.
Proof. intros Hne Hl. rewrite <- (app_nil_r x) at 1. apply trim_right_run; [constructor|exact Hne|exact Hl]. Qed.

Lemma trim_left_keep cs y : mem y cs = false -> forall r, exists p, trim_left cs (r ++ [y]) = p ++ [y].
Proof.
  intros Hy. induction r as [|z r IH]; simpl.
  - rewrite Hy. exists []. reflexivity.
  - destruct (mem z cs); [exact IH|]. exists (z :: r). reflexivity.
Qed.

Lemma trim_right_hd cs y x : mem y cs = false -> exists r, trim_right cs (y :: x) = y :: r.
Proof.
  intros Hy. unfold trim_right. simpl rev. destruct (trim_left_keep cs y Hy (rev x)) as [p Hp]. rewrite Hp.
  destruct p as [|z p']; simpl app; cbv iota.
  - exists []. reflexivity.
  - simpl rev. rewrite rev_app_distr. simpl. eexists. reflexivity.
Qed.

Lemma blanks_value b : blanks b -> Forall (fun y => mem y CFG_VALUE_BLANKS = true) b.
Proof.
  apply Forall_impl. intros y. unfold blank, CFG_BLANKS, CFG_VALUE_BLANKS. simpl.
  destruct (y =? 32), (y =? 9); simpl; intros H; try reflexivity; discriminate.
Qed.

Lemma blanks_no_eq b : blanks b -> no_eq b.
Proof.
  unfold no_eq. induction 1 as [|y b Hy _ IH]; [reflexivity|]. rewrite mem_cons, IH, orb_false_r.
  unfold blank, CFG_BLANKS in Hy. simpl in Hy. apply Z.eqb_neq. intros E. subst y. discriminate Hy.
Qed.

Lemma no_eq_app a b : no_eq a -> no_eq b -> no_eq (a ++ b).
Proof. unfold no_eq. intros Ha Hb. rewrite mem_app, Ha, Hb. reflexivity. Qed.

Lemma mem_eq_mid a b : mem CFG_SEP (a ++ CFG_SEP :: b) = true.
Proof. rewrite mem_app, mem_cons, Z.eqb_refl. simpl. apply orb_true_r. Qed.

Lemma hd_app_ne (a b : list Z) : a <> [] -> hd 0 (a ++ b) = hd 0 a.
Proof. destruct a; [congruence|reflexivity]. Qed.

Lemma last_app_ne (a b : list Z) : b <> [] -> last (a ++ b) 0 = last b 0.
Proof.
  intros Hb. induction a as [|x a IH]; [reflexivity|]. simpl app.
  destruct (a ++ b) eqn:E; [destruct a; simpl in E; congruence|]. exact IH.
Qed.

(* ---- the three kinds of lines after trimming ---- *)
Definition trimmed (raw : list Z) : list Z := trim_right CFG_BLANKS (trim_left CFG_BLANKS raw).

Lemma trimmed_noise raw : noise_line raw ->
  is_nil (trimmed raw) || (Z.eqb (hd 0 (trimmed raw)) CFG_COMMENT && negb (is_nil (trimmed raw))) = true.
Proof.
  intros [b Hb|b x Hb]; unfold trimmed.
  - rewrite (trim_left_all CFG_BLANKS b Hb). reflexivity.
  - rewrite (trim_left_run CFG_BLANKS b (CFG_COMMENT :: x) Hb eq_refl).
    destruct (trim_right_hd CFG_BLANKS CFG_COMMENT x eq_refl) as [r Hr]. rewrite Hr. reflexivity.
Qed.

Lemma tight_hd k : tight k -> mem (hd 0 k) CFG_BLANKS = false.
Proof. intros (_ & H & _). exact H. Qed.

Lemma trimmed_cont cl raw : cfg_cont_ok cl -> cont_line cl raw -> trimmed raw = cl.
Proof.
  intros ((Hne & Hh & Hl) & _ & _) [b0 b1 Hb0 Hb1]. unfold trimmed.
  rewrite (trim_left_run CFG_BLANKS b0 (cl ++ b1) Hb0) by (rewrite hd_app_ne by exact Hne; exact Hh).
  apply trim_right_run; assumption.
Qed.

Lemma trimmed_sec key v1 raw : cfg_key_ok key -> cfg_v1_ok v1 -> sec_line key v1 raw ->
  exists b1 w, blanks b1 /\ trimmed raw = key ++ b1 ++ CFG_SEP :: w /\ trim_left CFG_VALUE_BLANKS w = v1.
Proof.
  intros ((Hne & Hh & Hl) & Hnk & Hc) Hv [b0 b1 b2 b3 Hb0 Hb1 Hb2 Hb3]. exists b1. unfold trimmed.
  rewrite (trim_left_run CFG_BLANKS b0 _ Hb0) by (rewrite hd_app_ne by exact Hne; exact Hh).
  destruct Hv as [->|((Hvne & Hvh & Hvl) & Hvv)].
  - exists []. split; [exact Hb1|]. split; [|reflexivity].
    replace (key ++ b1 ++ CFG_SEP :: b2 ++ [] ++ b3) with ((key ++ b1 ++ [CFG_SEP]) ++ (b2 ++ b3)) by (rewrite <- !app_assoc; reflexivity).
    apply trim_right_run.
    + apply Forall_app. split; assumption.
    + destruct key; [congruence|discriminate].
    + rewrite app_assoc. rewrite last_app_ne by discriminate. reflexivity.
  - exists (b2 ++ v1). split; [exact Hb1|]. split.
    + replace (key ++ b1 ++ CFG_SEP :: b2 ++ v1 ++ b3) with ((key ++ b1 ++ CFG_SEP :: b2 ++ v1) ++ b3)
        by (rewrite <- !app_assoc; simpl; rewrite <- !app_assoc; reflexivity).
      apply trim_right_run; [exact Hb3|destruct key; [congruence|discriminate]|].
      replace (key ++ b1 ++ CFG_SEP :: b2 ++ v1) with ((key ++ b1 ++ CFG_SEP :: b2) ++ v1)
        by (rewrite <- !app_assoc; simpl; reflexivity).
      rewrite last_app_ne by exact Hvne. exact Hvl.
    + apply trim_left_run; [apply blanks_value; exact Hb2|exact Hvv].
Qed.

Section Loop.
Variable c : ctx.
Variable allow : bool.
Notation loop := (cfg_loop c allow).
Notation fl := (flush c allow).

Lemma loop_cons raw r sec pairs : loop (raw :: r) sec pairs =
  let line := trimmed raw in
  if is_nil line || (Z.eqb (hd 0 line) CFG_COMMENT && negb (is_nil line)) then
    match fl sec pairs with FlOk ps => loop r None ps | FlErr e => PErr e end
  else if mem CFG_SEP line then
    match fl sec pairs with
    | FlErr e => PErr e
    | FlOk ps =>
        let '(n, ov) := split_eq line in
        let v := match ov with Some v => v | None => [] end in
        loop r (Some (trim_right CFG_BLANKS n, trim_left CFG_VALUE_BLANKS v)) ps
    end
  else match sec with
       | Some (n, v) => loop r (Some (n, v ++ CFG_JOIN ++ line)) pairs
       | None => PErr EFormat
       end.
Proof. reflexivity. Qed.

Lemma not_noise l : l <> [] -> hd 0 l <> CFG_COMMENT -> is_nil l || (Z.eqb (hd 0 l) CFG_COMMENT && negb (is_nil l)) = false.
Proof. intros Hne Hc. destruct l as [|x r]; [congruence|]. simpl in *. apply Z.eqb_neq in Hc. rewrite Hc. reflexivity. Qed.

Lemma loop_conts conts craws : Forall2 (fun cl r => cfg_cont_ok cl /\ cont_line cl r) conts craws ->
  forall rest n v pairs, loop (craws ++ rest) (Some (n, v)) pairs = loop rest (Some (n, sec_value v conts)) pairs.
Proof.
  induction 1 as [|cl raw conts craws [Hok Hl] _ IH]; intros rest n v pairs; [reflexivity|].
  simpl app. rewrite loop_cons. cbv zeta. rewrite (trimmed_cont cl raw Hok Hl).
  destruct Hok as ((Hne & Hh & Hlast) & Hneq & Hc).
  rewrite (not_noise cl Hne Hc). unfold no_eq in Hneq. change CFG_SEP with EQ. rewrite Hneq.
  rewrite IH. reflexivity.
Qed.

Lemma loop_sec key v1 raw r sec pairs pairs0 : cfg_key_ok key -> cfg_v1_ok v1 -> sec_line key v1 raw -> fl sec pairs = FlOk pairs0 ->
  loop (raw :: r) sec pairs = loop r (Some (key, v1)) pairs0.
Proof.
  intros Hk Hv Hl Hf. rewrite loop_cons. cbv zeta.
  destruct (trimmed_sec key v1 raw Hk Hv Hl) as (b1 & w & Hb1 & Ht & Hw). rewrite Ht.
  destruct Hk as ((Hne & Hh & Hlast) & Hneq & Hc).
  rewrite not_noise; [|destruct key; [congruence|discriminate]|rewrite hd_app_ne by exact Hne; exact Hc].
  replace (key ++ b1 ++ CFG_SEP :: w) with ((key ++ b1) ++ CFG_SEP :: w) by (rewrite <- app_assoc; reflexivity).
  rewrite mem_eq_mid. rewrite Hf. change CFG_SEP with EQ.
  rewrite (split_eq_eq (key ++ b1) w (no_eq_app key b1 Hneq (blanks_no_eq b1 Hb1))). cbv beta iota.
  rewrite (trim_right_run CFG_BLANKS key b1 Hb1 Hne Hlast). rewrite Hw. reflexivity.
Qed.

Lemma cfg_file_loop ls ps : cfg_file c allow ls ps ->
  forall sec pairs pairs0, fl sec pairs = FlOk pairs0 -> loop ls sec pairs = POk (pairs0 ++ ps) [].
Proof.
  induction 1 as [|raw ls ps Hn _ IH|key v1 conts raw craws o ls ps Hk Hv Hl Hc Hr _ IH|key v1 conts raw craws ls ps Hk Hv Hl Hc Hr _ IH];
    intros sec pairs pairs0 Hf.
  - simpl. rewrite Hf, app_nil_r. reflexivity.
  - rewrite loop_cons. cbv zeta. rewrite (trimmed_noise raw Hn). rewrite Hf. apply IH. reflexivity.
  - rewrite (loop_sec key v1 raw _ sec pairs pairs0 Hk Hv Hl Hf). rewrite (loop_conts conts craws Hc).
    rewrite (IH _ _ (pairs0 ++ [(o, sec_value v1 conts)])); [rewrite <- app_assoc; reflexivity|].
    simpl. rewrite Hr. reflexivity.
  - rewrite (loop_sec key v1 raw _ sec pairs pairs0 Hk Hv Hl Hf). rewrite (loop_conts conts craws Hc).
    apply IH. simpl. rewrite Hr. reflexivity.
Qed.
End Loop.

(* ---- std::getline ---- *)
Lemma lines_aux_line l : no_nl l -> forall cur rest, lines_aux (l ++ 10 :: rest) cur = (cur ++ l) :: lines_aux rest [].
Proof.
  induction 1 as [|x l Hx _ IH]; intros cur rest; simpl.
  - rewrite app_nil_r. reflexivity.
  - destruct (Z.eqb_spec x 10); [contradiction|]. rewrite IH, <- app_assoc. reflexivity.
Qed.

Lemma lines_text ls : Forall no_nl ls -> lines (cfg_text ls) = ls.
Proof.
  unfold lines, cfg_text. induction 1 as [|l ls Hl _ IH]; [reflexivity|].
  simpl. rewrite <- app_assoc. simpl. rewrite (lines_aux_line l Hl). simpl. rewrite IH. reflexivity.
Qed.

Lemma lines_aux_last l : no_nl l -> forall cur, cur ++ l <> [] -> lines_aux l cur = [cur ++ l].
Proof.
  induction 1 as [|x l Hx _ IH]; intros cur Hne; simpl.
  - rewrite app_nil_r in *. destruct cur; [congruence|reflexivity].
  - destruct (Z.eqb_spec x 10); [contradiction|]. rewrite IH; rewrite <- app_assoc; [reflexivity|exact Hne].
Qed.

(* the last line need not be terminated *)
Lemma lines_text_last ls l : Forall no_nl ls -> no_nl l -> l <> [] -> lines (cfg_text ls ++ l) = ls ++ [l].
Proof.
  unfold lines, cfg_text. intros H Hl Hne. induction H as [|x ls Hx _ IH].
  - simpl. apply (lines_aux_last l Hl []). exact Hne.
  - simpl. rewrite <- !app_assoc. simpl. rewrite (lines_aux_line x Hx). simpl. rewrite IH. reflexivity.
Qed.

Theorem cfg_thm c allow ls ps : cfg_file c allow ls ps -> Forall no_nl ls ->
  parse_cfg c allow (cfg_text ls) = POk ps [] /\
  (forall ls' l, ls = ls' ++ [l] -> l <> [] -> parse_cfg c allow (cfg_text ls' ++ l) = POk ps []).
Proof.
  intros Hf Hn. unfold parse_cfg. split.
  - rewrite (lines_text ls Hn). apply (cfg_file_loop c allow ls ps Hf None [] []). reflexivity.
  - intros ls' l -> Hne. apply Forall_app in Hn. destruct Hn as [Hn1 Hn2]. inversion Hn2; subst.
    rewrite (lines_text_last ls' l Hn1 H1 Hne). apply (cfg_file_loop c allow _ ps Hf None [] []). reflexivity.
Qed.
