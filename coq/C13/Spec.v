(* C13 - specification side: intended items and the relation `spells` that enumerates every supported spelling with
   its side conditions; rendering of command strings and config files.  Definitions only. *)
Require Import V.Lib.Base V.Gen.Consts_C14 V.Gen.Consts_C13 V.C14.Model V.C13.Model.
Local Open Scope Z_scope.

(* an intended item: an option occurrence with its value, or a token that is to be left in the remaining arguments *)
Inductive item := Occ (o : nat) (v : token) | Rem (t : token).
Definition occs (its : list item) : list (nat * token) :=
  flat_map (fun it => match it with Occ o v => [(o, v)] | Rem _ => [] end) its.
Definition rems (its : list item) : list token :=
  flat_map (fun it => match it with Occ _ _ => [] | Rem t => [t] end) its.

Definition DD : list Z := [DASH; DASH].
Definition no_eq (n : list Z) : Prop := mem EQ n = false.

Section Spells.
Variable c : ctx.
Variable attrs : list attr.
Variable allow : bool.
Variable pos : option (token -> option (list Z)).
Variable afv : bool.

(* the key (a full name, a unique prefix, an alias name ...) resolves to option o: C14's name-or-prefix lookup *)
Definition resolves (key : list Z) (o : nat) : Prop := get_option allow key find_name_or_prefix c = Found o.
Definition alias_resolves (ch : Z) (o : nat) : Prop := get_option allow [ch] find_alias c = Found o.
(* the key names no option (and is not ambiguous) *)
Definition unresolved (key : list Z) : Prop :=
  get_option allow key find_name_or_prefix c = Unknown \/ get_option allow key find_name_or_prefix c = NotFound.

Definition o_required (o : nat) : Prop := is_implicit attrs o = false.
Definition o_implicit (o : nat) : Prop := is_implicit attrs o = true.
Definition o_flag (o : nat) : Prop := is_flag attrs o = true.
Definition o_valued (o : nat) : Prop := is_flag attrs o = false.

(* what may follow the grouped flags in a short-option token *)
Inductive stail :=
| st_none                                   (* -xyz *)
| st_adj (a : Z) (o : nat) (v : token)      (* -xyzaVALUE : a takes a value (required or implicit), VALUE non-empty *)
| st_impl (a : Z) (o : nat)                 (* -xyza      : a has an implicit value *)
| st_sep (a : Z) (o : nat) (v : token).     (* -xyza VALUE: a requires a value, taken from the next token *)

Definition stail_ok (t : stail) : Prop :=
  match t with
  | st_none => True
  | st_adj a o v => alias_resolves a o /\ o_valued o /\ v <> []
  | st_impl a o => alias_resolves a o /\ o_valued o /\ o_implicit o
  | st_sep a o v => alias_resolves a o /\ o_required o
  end.
Definition stail_chars (t : stail) : list Z :=
  match t with st_none => [] | st_adj a _ v => a :: v | st_impl a _ => [a] | st_sep a _ _ => [a] end.
Definition stail_more (t : stail) : list token := match t with st_sep _ _ v => [v] | _ => [] end.
Definition stail_items (t : stail) : list item :=
  match t with st_none => [] | st_adj _ o v => [Occ o v] | st_impl _ o => [Occ o []] | st_sep _ o v => [Occ o v] end.

Inductive spells : list item -> list token -> Prop :=
(* --name=value : value non-empty; a flag takes a value only when flag values are allowed *)
| sp_long_eq n v o : no_eq n -> v <> [] -> resolves n o -> (is_flag attrs o = true -> afv = true) ->
    spells [Occ o v] [DD ++ n ++ EQ :: v]
(* --name value : required-argument options; the value is the next token whatever it looks like *)
| sp_long_sep n v o : no_eq n -> n <> [] -> resolves n o -> o_required o ->
    spells [Occ o v] [DD ++ n; v]
(* --name : flag or implicit value *)
| sp_long_impl n o : no_eq n -> n <> [] -> resolves n o -> o_implicit o ->
    spells [Occ o []] [DD ++ n]
(* --no-name : negatable option, when "no-name" itself names nothing *)
| sp_long_no n o : no_eq n -> resolves n o -> is_negatable attrs o = true -> unresolved (NO_PREFIX ++ n) ->
    spells [Occ o NO_VALUE] [DD ++ NO_PREFIX ++ n]
(* -xyz[a[value]] [value] : grouped flags followed by at most one valued alias *)
| sp_short fs t : Forall (fun f => alias_resolves (fst f) (snd f) /\ o_flag (snd f)) fs -> stail_ok t ->
    map fst fs ++ stail_chars t <> [] -> hd 0 (map fst fs ++ stail_chars t) <> DASH ->
    spells (map (fun f => Occ (snd f) []) fs ++ stail_items t) ((DASH :: map fst fs ++ stail_chars t) :: stail_more t)
(* positional token mapped by the handler to option o *)
| sp_pos t o : classify t = TPos -> pos_lookup c allow pos t = Found o -> spells [Occ o t] [t]
(* tokens that name nothing stay in the remaining arguments (only possible when unregistered options are allowed) *)
| sp_pos_rem t : classify t = TPos -> pos_lookup c allow pos t = NotFound -> spells [Rem t] [t]
| sp_unknown_long n : no_eq n -> n <> [] -> get_option allow n find_name_or_prefix c = NotFound ->
    (is_prefix NO_PREFIX n = true -> forall o, resolves (skipn (length NO_PREFIX) n) o -> is_negatable attrs o = false) ->
    spells [Rem (DD ++ n)] [DD ++ n]
| sp_unknown_long_eq n v : no_eq n -> v <> [] -> get_option allow n find_name_or_prefix c = NotFound ->
    spells [Rem (DD ++ n ++ EQ :: v)] [DD ++ n ++ EQ :: v]
| sp_unknown_short ch rest : ch <> DASH -> get_option allow [ch] find_alias c = NotFound ->
    spells [Rem (DASH :: ch :: rest)] [DASH :: ch :: rest].
End Spells.

(* ---- command strings ---- *)
Inductive qstyle := QBare | QQuote (q : Z).
Fixpoint esc (t : token) : list Z :=
  match t with
  | [] => []
  | x :: r => if is_escapable x then BSLASH :: x :: esc r else x :: esc r
  end.
Definition render_tok (s : qstyle) (t : token) : list Z :=
  match s with QBare => esc t | QQuote q => q :: esc t ++ [q] end.
Definition style_ok (s : qstyle) (t : token) : Prop :=
  match s with
  | QBare => t <> [] /\ Forall (fun x => is_space x = false) t
  | QQuote q => is_quote q = true
  end.
Fixpoint quote_join (sts : list (qstyle * token)) : list Z :=
  match sts with
  | [] => []
  | [(s, t)] => render_tok s t
  | (s, t) :: r => render_tok s t ++ SEP :: quote_join r
  end.

(* ---- config files ---- *)
Definition blank (x : Z) : bool := mem x CFG_BLANKS.
Definition blanks (b : list Z) : Prop := Forall (fun x => blank x = true) b.
(* non-empty, first and last byte are no blanks *)
Definition tight (l : list Z) : Prop := l <> [] /\ blank (hd 0 l) = false /\ blank (last l 0) = false.
Definition no_nl (l : list Z) : Prop := Forall (fun x => x <> 10) l.

Definition cfg_key_ok (k : list Z) : Prop := tight k /\ no_eq k /\ hd 0 k <> CFG_COMMENT.
Definition cfg_v1_ok (v : list Z) : Prop := v = [] \/ (tight v /\ mem (hd 0 v) CFG_VALUE_BLANKS = false).
Definition cfg_cont_ok (l : list Z) : Prop := tight l /\ no_eq l /\ hd 0 l <> CFG_COMMENT.

(* blanks key blanks '=' blanks value blanks *)
Inductive sec_line (key v1 : list Z) : list Z -> Prop :=
| sec_line_intro b0 b1 b2 b3 : blanks b0 -> blanks b1 -> blanks b2 -> blanks b3 ->
    sec_line key v1 (b0 ++ key ++ b1 ++ CFG_SEP :: b2 ++ v1 ++ b3).
Inductive cont_line (cl : list Z) : list Z -> Prop :=
| cont_line_intro b0 b1 : blanks b0 -> blanks b1 -> cont_line cl (b0 ++ cl ++ b1).
(* blank lines and comment lines *)
Inductive noise_line : list Z -> Prop :=
| noise_blank b : blanks b -> noise_line b
| noise_comment b x : blanks b -> noise_line (b ++ CFG_COMMENT :: x).

Definition sec_value (v1 : list Z) (conts : list (list Z)) : list Z :=
  fold_left (fun acc cl => acc ++ CFG_JOIN ++ cl) conts v1.

Section CfgFile.
Variable c : ctx.
Variable allow : bool.
(* a config file as a list of raw lines, with the pairs it is meant to yield: sections 'key = value' with continuation
   lines, separated by any number of blank / comment lines; a key that names no option is skipped when unregistered
   options are allowed *)
Inductive cfg_file : list (list Z) -> list (nat * token) -> Prop :=
| cf_nil : cfg_file [] []
| cf_noise raw ls ps : noise_line raw -> cfg_file ls ps -> cfg_file (raw :: ls) ps
| cf_sec key v1 conts raw craws o ls ps : cfg_key_ok key -> cfg_v1_ok v1 -> sec_line key v1 raw ->
    Forall2 (fun cl r => cfg_cont_ok cl /\ cont_line cl r) conts craws ->
    get_option allow key find_name_or_prefix c = Found o -> cfg_file ls ps ->
    cfg_file (raw :: craws ++ ls) ((o, sec_value v1 conts) :: ps)
| cf_skip key v1 conts raw craws ls ps : cfg_key_ok key -> cfg_v1_ok v1 -> sec_line key v1 raw ->
    Forall2 (fun cl r => cfg_cont_ok cl /\ cont_line cl r) conts craws ->
    get_option allow key find_name_or_prefix c = NotFound -> cfg_file ls ps ->
    cfg_file (raw :: craws ++ ls) ps.
End CfgFile.

(* the text of a file: every line terminated by a newline *)
Definition cfg_text (ls : list (list Z)) : list Z := flat_map (fun l => l ++ [10]) ls.

(* ---- error cases (token level) ---- *)
Section Errors.
Variable c : ctx.
Variable attrs : list attr.
Variable allow : bool.
Variable pos : option (token -> option (list Z)).
Variable afv : bool.

(* a token on which the parse stops with the given error, whatever follows *)
Inductive bad_token : perr -> token -> Prop :=
| bt_extra n v o : no_eq n -> v <> [] -> resolves c allow n o -> is_flag attrs o = true -> afv = false ->
    bad_token EExtra (DD ++ n ++ EQ :: v)
| bt_ambiguous n S : no_eq n -> n <> [] -> get_option allow n find_name_or_prefix c = Ambiguous S ->
    bad_token EAmbiguous (DD ++ n)
| bt_ambiguous_eq n v S : no_eq n -> get_option allow n find_name_or_prefix c = Ambiguous S ->
    bad_token EAmbiguous (DD ++ n ++ EQ :: v)
| bt_unknown_long n : no_eq n -> n <> [] -> get_option allow n find_name_or_prefix c = Unknown ->
    (is_prefix NO_PREFIX n = true -> forall o, resolves c allow (skipn (length NO_PREFIX) n) o -> is_negatable attrs o = false) ->
    bad_token EUnknown (DD ++ n)
| bt_unknown_long_eq n v : no_eq n -> v <> [] -> get_option allow n find_name_or_prefix c = Unknown ->
    bad_token EUnknown (DD ++ n ++ EQ :: v)
| bt_unknown_short fs ch rest : Forall (fun f => alias_resolves c allow (fst f) (snd f) /\ o_flag attrs (snd f)) fs ->
    hd 0 (map fst fs ++ [ch]) <> DASH -> get_option allow [ch] find_alias c = Unknown ->
    bad_token EUnknown (DASH :: map fst fs ++ ch :: rest)
| bt_unknown_pos t : classify t = TPos -> pos_lookup c allow pos t = Unknown -> bad_token EUnknown t
| bt_ambiguous_pos t S : classify t = TPos -> pos_lookup c allow pos t = Ambiguous S -> bad_token EAmbiguous t.

(* a last token that still needs a value *)
Inductive needs_value : token -> Prop :=
| nv_long n o : no_eq n -> n <> [] -> resolves c allow n o -> o_required attrs o -> needs_value (DD ++ n)
| nv_long_eq n o : no_eq n -> resolves c allow n o -> o_required attrs o -> needs_value (DD ++ n ++ [EQ])
| nv_short fs a o : Forall (fun f => alias_resolves c allow (fst f) (snd f) /\ o_flag attrs (snd f)) fs ->
    hd 0 (map fst fs ++ [a]) <> DASH -> alias_resolves c allow a o -> o_required attrs o ->
    needs_value (DASH :: map fst fs ++ [a]).
End Errors.
