(* C13 - error cases: the parse of a valid prefix followed by a bad token raises the documented error class. *)
Require Import V.Lib.Base V.Gen.Consts_C14 V.Gen.Consts_C13 V.C14.Model V.C13.Model V.C13.Spec V.C13.ProofsArgv.
Local Open Scope Z_scope.

Section Err.
Variable c : ctx.
Variable attrs : list attr.
Variable allow : bool.
Variable pos : option (token -> option (list Z)).
Variable afv : bool.
Notation parse := (parse_l c attrs allow pos afv).
Notation hlong := (handle_long c attrs allow afv).
Notation sloop := (short_loop c attrs allow).

Lemma hlong_extra n v o : no_eq n -> v <> [] -> resolves c allow n o -> is_flag attrs o = true -> afv = false ->
  hlong (n ++ EQ :: v) = LErr EExtra.
Proof.
  intros Hn Hv Hr Hf Ha. unfold handle_long. rewrite (split_eq_eq n v Hn). cbv beta iota.
  rewrite (is_nil_false v Hv). simpl andb. cbv iota. unfold get_opt. unfold resolves in Hr. rewrite Hr.
  unfold long_use. rewrite (is_nil_false v Hv), Hf, Ha. rewrite andb_false_r. reflexivity.
Qed.

Lemma hlong_ambiguous body n ov S : split_eq body = (n, ov) -> get_option allow n find_name_or_prefix c = Ambiguous S ->
  hlong body = LErr EAmbiguous.
Proof. intros Hs Ha. unfold handle_long. rewrite Hs. cbv beta iota. unfold get_opt. rewrite Ha. reflexivity. Qed.

Lemma hlong_unknown_err n : no_eq n -> get_option allow n find_name_or_prefix c = Unknown ->
  (is_prefix NO_PREFIX n = true -> forall o, resolves c allow (skipn (length NO_PREFIX) n) o -> is_negatable attrs o = false) ->
  hlong n = LErr EUnknown.
Proof.
  intros Hn Hu Hno. unfold handle_long. rewrite (split_eq_no n Hn). cbv beta iota.
  unfold get_opt. rewrite Hu.
  destruct (is_prefix NO_PREFIX n) eqn:Ep.
  - change (is_nil (@nil Z) && true) with true. cbv iota.
    destruct (get_option allow (skipn (length NO_PREFIX) n) find_name_or_prefix c) as [i| | |] eqn:El; try reflexivity.
    rewrite (Hno eq_refl i El). reflexivity.
  - rewrite andb_false_r. reflexivity.
Qed.

Lemma hlong_unknown_eq_err n v : no_eq n -> v <> [] -> get_option allow n find_name_or_prefix c = Unknown ->
  hlong (n ++ EQ :: v) = LErr EUnknown.
Proof.
  intros Hn Hv Hu. unfold handle_long. rewrite (split_eq_eq n v Hn). cbv beta iota.
  rewrite (is_nil_false v Hv). simpl andb. cbv iota. unfold get_opt. rewrite Hu. reflexivity.
Qed.

Lemma hlong_eq_empty n o : no_eq n -> resolves c allow n o -> o_required attrs o -> hlong (n ++ [EQ]) = LNeed o.
Proof.
  intros Hn Hr Hq. unfold handle_long. rewrite (split_eq_eq n [] Hn). cbv beta iota.
  rewrite (on_irrelevant_found c attrs allow afv n o [] Hr). unfold long_use. unfold o_required in Hq. rewrite Hq. reflexivity.
Qed.

Lemma bad_token_step e t : bad_token c attrs allow pos afv e t -> forall rest pairs rem, parse (t :: rest) Normal pairs rem = PErr e.
Proof.
  intros H. destruct H as [n v o Hn Hv Hr Hf Ha|n S Hn Hne Ha|n v S Hn Ha|n Hn Hne Hu Hno|n v Hn Hv Hu|fs ch rst Hfs Hd Hu|t Hc Hl|t S Hc Hl];
    intros rest pairs rem; rewrite parse_normal.
  - rewrite classify_long by (destruct n; discriminate). rewrite (hlong_extra n v o Hn Hv Hr Hf Ha). reflexivity.
  - rewrite (classify_long n Hne). rewrite (hlong_ambiguous n n None S (split_eq_no n Hn) Ha). reflexivity.
  - rewrite classify_long by (destruct n; discriminate). rewrite (hlong_ambiguous _ n (Some v) S (split_eq_eq n v Hn) Ha). reflexivity.
  - rewrite (classify_long n Hne). rewrite (hlong_unknown_err n Hn Hu Hno). reflexivity.
  - rewrite classify_long by (destruct n; discriminate). rewrite (hlong_unknown_eq_err n v Hn Hv Hu). reflexivity.
  - destruct (map fst fs ++ ch :: rst) as [|x body] eqn:Eb; [destruct (map fst fs); discriminate|].
    assert (Hx : x <> DASH).
    { destruct fs as [|f fs']; simpl in *; inversion Eb; subst; exact Hd. }
    rewrite (classify_short x body Hx). rewrite <- Eb. rewrite (sloop_flags c attrs allow fs Hfs). simpl.
    unfold get_opt. rewrite Hu. reflexivity.
  - rewrite Hc, Hl. reflexivity.
  - rewrite Hc, Hl. reflexivity.
Qed.

Lemma needs_value_step t : needs_value c attrs allow t -> forall pairs rem, parse [t] Normal pairs rem = PErr EMissing.
Proof.
  intros H pairs rem.
  destruct H as [n o Hn Hne Hr Hq|n o Hn Hr Hq|fs a o Hfs Hd Hr Hq]; rewrite parse_normal.
  - rewrite (classify_long n Hne). rewrite (hlong_sep c attrs allow afv n o Hn Hr Hq). reflexivity.
  - rewrite classify_long by (destruct n; discriminate). rewrite (hlong_eq_empty n o Hn Hr Hq). reflexivity.
  - destruct (map fst fs ++ [a]) as [|x body] eqn:Eb; [destruct (map fst fs); discriminate|].
    simpl in Hd. rewrite (classify_short x body Hd). rewrite <- Eb. rewrite (sloop_flags c attrs allow fs Hfs). simpl.
    unfold get_opt. unfold alias_resolves in Hr. rewrite Hr. unfold o_required in Hq. rewrite Hq. reflexivity.
Qed.

Theorem errors_thm itss tokss : Forall2 (spells c attrs allow pos afv) itss tokss ->
  (forall e t rest, bad_token c attrs allow pos afv e t -> parse_argv c attrs allow pos afv (concat tokss ++ t :: rest) = PErr e) /\
  (forall t, needs_value c attrs allow t -> parse_argv c attrs allow pos afv (concat tokss ++ [t]) = PErr EMissing).
Proof.
  intros H. unfold parse_argv. split.
  - intros e t rest Hb. rewrite (spells_chunks c attrs allow pos afv itss tokss H). apply (bad_token_step e t Hb).
  - intros t Hn. rewrite (spells_chunks c attrs allow pos afv itss tokss H).
    apply (needs_value_step t Hn).
Qed.
End Err.
