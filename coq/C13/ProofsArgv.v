(* C13 - every supported spelling parses to its intended items (token-level parser). *)
Require Import V.Lib.Base V.Gen.Consts_C14 V.Gen.Consts_C13 V.C14.Model V.C13.Model V.C13.Spec.
Local Open Scope Z_scope.

Lemma mem_app x a b : mem x (a ++ b) = mem x a || mem x b.
Proof. induction a as [|y a IH]; simpl; [reflexivity|]. rewrite IH. apply orb_assoc. Qed.

Lemma mem_cons x y r : mem x (y :: r) = (x =? y) || mem x r.
Proof. reflexivity. Qed.
Lemma split_eq_cons x r : split_eq (x :: r) = if x =? EQ then ([], Some r) else let '(n, v) := split_eq r in (x :: n, v).
Proof. reflexivity. Qed.

Lemma split_eq_no n : no_eq n -> split_eq n = (n, None).
Proof.
  unfold no_eq. induction n as [|x n IH]; intros H; [reflexivity|].
  rewrite mem_cons in H. apply orb_false_iff in H. destruct H as [H1 H2]. rewrite Z.eqb_sym in H1.
  rewrite split_eq_cons, H1, (IH H2). reflexivity.
Qed.

Lemma split_eq_eq n v : no_eq n -> split_eq (n ++ EQ :: v) = (n, Some v).
Proof.
  unfold no_eq. induction n as [|x n IH]; intros H.
  - simpl app. rewrite split_eq_cons, Z.eqb_refl. reflexivity.
  - rewrite mem_cons in H. apply orb_false_iff in H. destruct H as [H1 H2]. rewrite Z.eqb_sym in H1.
    simpl app. rewrite split_eq_cons, H1, (IH H2). reflexivity.
Qed.

Lemma is_prefix_app p r : is_prefix p (p ++ r) = true.
Proof. induction p as [|x p IH]; simpl; [reflexivity|]. rewrite Z.eqb_refl. exact IH. Qed.

Lemma skipn_app_len {A} (p r : list A) : skipn (length p) (p ++ r) = r.
Proof. induction p; simpl; auto. Qed.

Lemma classify_long body : body <> [] -> classify (DD ++ body) = TLong body.
Proof. intros H. destruct body; [congruence|reflexivity]. Qed.

Lemma classify_short ch rest : ch <> DASH -> classify (DASH :: ch :: rest) = TShort (ch :: rest).
Proof.
  intros H. unfold classify. replace (ch =? DASH) with false by (symmetry; apply Z.eqb_neq; exact H).
  rewrite andb_false_r. reflexivity.
Qed.

Lemma is_nil_false {A} (l : list A) : l <> [] -> is_nil l = false.
Proof. destruct l; [congruence|reflexivity]. Qed.

Section Argv.
Variable c : ctx.
Variable attrs : list attr.
Variable allow : bool.
Variable pos : option (token -> option (list Z)).
Variable afv : bool.

Notation parse := (parse_l c attrs allow pos afv).
Notation hlong := (handle_long c attrs allow afv).
Notation sloop := (short_loop c attrs allow).
Notation spell := (spells c attrs allow pos afv).

Lemma parse_normal t r pairs rem : parse (t :: r) Normal pairs rem =
  match classify t with
  | TEnd => parse r AfterEnd pairs rem
  | TLong body =>
      match hlong body with
      | LAdd i v => parse r Normal (pairs ++ [(i, v)]) rem
      | LNeed i => parse r (Need i) pairs rem
      | LKeep => parse r Normal pairs (rem ++ [t])
      | LErr e => PErr e
      end
  | TShort body =>
      match sloop body [] with
      | SDone ps => parse r Normal (pairs ++ ps) rem
      | SNeed ps i => parse r (Need i) (pairs ++ ps) rem
      | SKeep ps => parse r Normal (pairs ++ ps) (rem ++ [t])
      | SErr e => PErr e
      end
  | TPos =>
      match pos_lookup c allow pos t with
      | Found i => parse r Normal (pairs ++ [(i, t)]) rem
      | NotFound => parse r Normal pairs (rem ++ [t])
      | Unknown => PErr EUnknown
      | Ambiguous _ => PErr EAmbiguous
      end
  end.
Proof. reflexivity. Qed.

Lemma parse_need i t r pairs rem : parse (t :: r) (Need i) pairs rem = parse r Normal (pairs ++ [(i, t)]) rem.
Proof. reflexivity. Qed.

Lemma flag_implicit o : is_flag attrs o = true -> is_implicit attrs o = true.
Proof. unfold is_flag, is_implicit. intros ->. apply orb_true_r. Qed.

(* handleLongOpt on the spellings *)
Lemma hlong_eq n v o : no_eq n -> v <> [] -> resolves c allow n o -> (is_flag attrs o = true -> afv = true) ->
  hlong (n ++ EQ :: v) = LAdd o v.
Proof.
  intros Hn Hv Hr Hf. unfold handle_long. rewrite (split_eq_eq n v Hn). cbv beta iota.
  rewrite (is_nil_false v Hv). simpl andb. cbv iota. unfold get_opt. unfold resolves in Hr. rewrite Hr.
  unfold long_use. rewrite (is_nil_false v Hv). rewrite andb_false_r. simpl negb.
  destruct (is_flag attrs o) eqn:Ef; [rewrite (Hf eq_refl)|]; reflexivity.
Qed.

Lemma on_irrelevant_found name o value : get_opt c allow name find_name_or_prefix = Found o ->
  forall on : option nat,
  match get_opt c allow name find_name_or_prefix with
  | Ambiguous _ => LErr EAmbiguous
  | Unknown => match on with Some i => long_use attrs afv i NO_VALUE true | None => LErr EUnknown end
  | NotFound => match on with Some i => long_use attrs afv i NO_VALUE true | None => LKeep end
  | Found i => long_use attrs afv i value false
  end = long_use attrs afv o value false.
Proof. intros -> on. reflexivity. Qed.

Lemma hlong_plain n o : no_eq n -> resolves c allow n o -> hlong n = long_use attrs afv o [] false.
Proof.
  intros Hn Hr. unfold handle_long. rewrite (split_eq_no n Hn). cbv beta iota.
  apply (on_irrelevant_found n o []). exact Hr.
Qed.

Lemma hlong_sep n o : no_eq n -> resolves c allow n o -> o_required attrs o -> hlong n = LNeed o.
Proof.
  intros Hn Hr Hq. rewrite (hlong_plain n o Hn Hr). unfold long_use. unfold o_required in Hq. rewrite Hq. reflexivity.
Qed.

Lemma hlong_impl n o : no_eq n -> resolves c allow n o -> o_implicit attrs o -> hlong n = LAdd o [].
Proof.
  intros Hn Hr Hq. rewrite (hlong_plain n o Hn Hr). unfold long_use. unfold o_implicit in Hq. rewrite Hq. simpl.
  rewrite andb_false_r. reflexivity.
Qed.

Lemma no_eq_no_prefix n : no_eq n -> no_eq (NO_PREFIX ++ n).
Proof. unfold no_eq. intros H. rewrite mem_app, H. reflexivity. Qed.

Lemma hlong_no n o : no_eq n -> resolves c allow n o -> is_negatable attrs o = true -> unresolved c allow (NO_PREFIX ++ n) ->
  hlong (NO_PREFIX ++ n) = LAdd o NO_VALUE.
Proof.
  intros Hn Hr Hneg Hu. unfold handle_long. rewrite (split_eq_no _ (no_eq_no_prefix n Hn)). cbv beta iota.
  simpl is_nil. rewrite is_prefix_app. simpl andb. cbv iota. rewrite skipn_app_len.
  unfold get_opt. unfold resolves in Hr. rewrite Hr. rewrite Hneg.
  assert (Hl : long_use attrs afv o NO_VALUE true = LAdd o NO_VALUE).
  { unfold long_use. change (is_nil NO_VALUE) with false. rewrite !andb_false_r. reflexivity. }
  destruct Hu as [Hu|Hu]; rewrite Hu; exact Hl.
Qed.

Lemma hlong_unknown n : no_eq n -> get_option allow n find_name_or_prefix c = NotFound ->
  (is_prefix NO_PREFIX n = true -> forall o, resolves c allow (skipn (length NO_PREFIX) n) o -> is_negatable attrs o = false) ->
  hlong n = LKeep.
Proof.
  intros Hn Hu Hno. unfold handle_long. rewrite (split_eq_no n Hn). cbv beta iota.
  unfold get_opt. rewrite Hu.
  destruct (is_prefix NO_PREFIX n) eqn:Ep.
  - change (is_nil (@nil Z) && true) with true. cbv iota.
    destruct (get_option allow (skipn (length NO_PREFIX) n) find_name_or_prefix c) as [i| | |] eqn:El; try reflexivity.
    rewrite (Hno eq_refl i El). reflexivity.
  - rewrite andb_false_r. reflexivity.
Qed.

Lemma hlong_unknown_eq n v : no_eq n -> v <> [] -> get_option allow n find_name_or_prefix c = NotFound ->
  hlong (n ++ EQ :: v) = LKeep.
Proof.
  intros Hn Hv Hu. unfold handle_long. rewrite (split_eq_eq n v Hn). cbv beta iota.
  rewrite (is_nil_false v Hv). simpl andb. cbv iota. unfold get_opt. rewrite Hu. reflexivity.
Qed.

(* handleShortOpt on grouped flags + tail *)
Lemma sloop_flags fs : Forall (fun f => alias_resolves c allow (fst f) (snd f) /\ o_flag attrs (snd f)) fs ->
  forall tail acc, sloop (map fst fs ++ tail) acc = sloop tail (acc ++ map (fun f => (snd f, [])) fs).
Proof.
  induction 1 as [|[ch o] fs [Hr Hf] _ IH]; intros tail acc; simpl.
  - rewrite app_nil_r. reflexivity.
  - unfold get_opt. unfold alias_resolves in Hr. simpl in Hr. rewrite Hr. simpl in Hf. unfold o_flag in Hf.
    rewrite (flag_implicit o Hf), Hf. simpl. rewrite IH. rewrite <- app_assoc. reflexivity.
Qed.

Lemma occs_flags (fs : list (Z * nat)) : occs (map (fun f => Occ (snd f) []) fs) = map (fun f => (snd f, [])) fs.
Proof. induction fs as [|f fs IH]; simpl; [reflexivity|]. rewrite IH. reflexivity. Qed.
Lemma rems_flags (fs : list (Z * nat)) : rems (map (fun f => Occ (snd f) []) fs) = [].
Proof. induction fs as [|f fs IH]; simpl; [reflexivity|exact IH]. Qed.
Lemma occs_app a b : occs (a ++ b) = occs a ++ occs b.
Proof. unfold occs. apply flat_map_app. Qed.
Lemma rems_app a b : rems (a ++ b) = rems a ++ rems b.
Proof. unfold rems. apply flat_map_app. Qed.

(* one chunk *)
Lemma spells_step its toks : spell its toks ->
  forall rest pairs rem, parse (toks ++ rest) Normal pairs rem = parse rest Normal (pairs ++ occs its) (rem ++ rems its).
Proof.
  intros H. destruct H as [n v o Hn Hv Hr Hf|n v o Hn Hne Hr Hq|n o Hn Hne Hr Hq|n o Hn Hr Hneg Hu|fs t Hfs Ht Hne Hd|t o Hc Hl|t Hc Hl|n Hn Hne Hu Hno|n v Hn Hv Hu|ch rst Hd Hu];
    intros rest pairs rem; rewrite <- ?app_comm_cons; rewrite ?app_nil_l; rewrite parse_normal.
  - rewrite classify_long by (destruct n; discriminate). rewrite (hlong_eq n v o Hn Hv Hr Hf). simpl. rewrite app_nil_r. reflexivity.
  - rewrite (classify_long n Hne). rewrite (hlong_sep n o Hn Hr Hq). rewrite parse_need. simpl. rewrite app_nil_r. reflexivity.
  - rewrite (classify_long n Hne). rewrite (hlong_impl n o Hn Hr Hq). simpl. rewrite app_nil_r. reflexivity.
  - rewrite classify_long by (unfold NO_PREFIX; discriminate). rewrite (hlong_no n o Hn Hr Hneg Hu). simpl. rewrite app_nil_r. reflexivity.
  - destruct (map fst fs ++ stail_chars t) as [|ch body] eqn:Eb; [congruence|]. simpl in Hd.
    rewrite (classify_short ch body Hd). rewrite <- Eb. rewrite (sloop_flags fs Hfs). simpl app.
    rewrite occs_app, rems_app, occs_flags, rems_flags. simpl app.
    destruct t as [|a o v|a o|a o v]; simpl in *.
    + rewrite ?app_nil_r. reflexivity.
    + destruct Ht as (Hr & Hv & Hvn). unfold get_opt. unfold alias_resolves in Hr. rewrite Hr. unfold o_valued in Hv. rewrite Hv. simpl.
      destruct (is_implicit attrs o); [|destruct v; [congruence|]].
      all: rewrite ?app_nil_r, <- ?app_assoc; reflexivity.
    + destruct Ht as (Hr & Hv & Hi). unfold get_opt. unfold alias_resolves in Hr. rewrite Hr. unfold o_valued in Hv. unfold o_implicit in Hi. rewrite Hi, Hv. simpl.
      rewrite ?app_nil_r, <- ?app_assoc. reflexivity.
    + destruct Ht as (Hr & Hq). unfold get_opt. unfold alias_resolves in Hr. rewrite Hr. unfold o_required in Hq. rewrite Hq.
      simpl. rewrite ?app_nil_r, <- ?app_assoc. reflexivity.
  - rewrite Hc, Hl. simpl. rewrite app_nil_r. reflexivity.
  - rewrite Hc, Hl. simpl. rewrite app_nil_r. reflexivity.
  - rewrite (classify_long n Hne). rewrite (hlong_unknown n Hn Hu Hno). simpl. rewrite app_nil_r. reflexivity.
  - rewrite classify_long by (destruct n; discriminate). rewrite (hlong_unknown_eq n v Hn Hv Hu). simpl. rewrite app_nil_r. reflexivity.
  - rewrite (classify_short ch rst Hd). simpl. unfold get_opt. rewrite Hu. simpl. rewrite app_nil_r. reflexivity.
Qed.

Lemma parse_after_end rest : forall pairs rem, parse rest AfterEnd pairs rem = POk pairs (rem ++ rest).
Proof.
  induction rest as [|t r IH]; intros pairs rem; simpl; [rewrite app_nil_r; reflexivity|].
  rewrite IH, <- app_assoc. reflexivity.
Qed.

Lemma spells_chunks itss tokss : Forall2 spell itss tokss ->
  forall tail pairs rem, parse (concat tokss ++ tail) Normal pairs rem =
                         parse tail Normal (pairs ++ occs (concat itss)) (rem ++ rems (concat itss)).
Proof.
  induction 1 as [|its toks itss tokss Hs _ IH]; intros tail pairs rem; simpl.
  - rewrite !app_nil_r. reflexivity.
  - rewrite <- app_assoc. rewrite (spells_step its toks Hs). rewrite IH. rewrite occs_app, rems_app, !app_assoc. reflexivity.
Qed.

(* the items, optionally followed by "--" and arbitrary tokens *)
Theorem argv_thm itss tokss : Forall2 spell itss tokss ->
  parse_argv c attrs allow pos afv (concat tokss) = POk (occs (concat itss)) (rems (concat itss)) /\
  forall rest, parse_argv c attrs allow pos afv (concat tokss ++ DD :: rest) = POk (occs (concat itss)) (rems (concat itss) ++ rest).
Proof.
  intros H. unfold parse_argv. split.
  - rewrite <- (app_nil_r (concat tokss)). rewrite (spells_chunks itss tokss H). reflexivity.
  - intros rest. rewrite (spells_chunks itss tokss H). rewrite parse_normal. change (classify DD) with TEnd. cbv iota.
    rewrite parse_after_end. reflexivity.
Qed.
End Argv.
