(* C12 - histories: the refinement and the ledger invariant for every finite sequence of operations;
   lookups answer as the table; the ledger counts exactly the stored items. *)
Require Import V.Lib.Base V.Lib.Calls V.Gen.Consts V.Gen.Consts_C12 V.C12.Spec V.C12.Model V.C12.ProofsBase V.C12.ProofsInv V.C12.ProofsRef.
Require Import ZifyBool Permutation.
Local Open Scope Z_scope.

(* ---------- the abstract step respects table equality ---------- *)
Lemma aeq_sym x y : aeq x y -> aeq y x.
Proof. unfold aeq. intros [A [B [C [D [E [F [G H]]]]]]]. repeat split; auto; congruence. Qed.
Lemma aeq_trans x y z : aeq x y -> aeq y z -> aeq x z.
Proof.
  unfold aeq. intros [A [B [C [D [E [F [G H]]]]]]] [A' [B' [C' [D' [E' [F' [G' H']]]]]]].
  split. { intro id. rewrite A. apply A'. }
  split. { congruence. }
  split. { intro id. rewrite C. apply C'. }
  repeat split; congruence.
Qed.

Lemma s_add_term_aeq x y id t : aeq x y -> fst (s_add_term x id t) = fst (s_add_term y id t) /\ aeq (snd (s_add_term x id t)) (snd (s_add_term y id t)).
Proof.
  intros Q. pose proof Q as [A [B [C [D [E [F [G H]]]]]]]. unfold s_add_term, s_new_term, s_has_term. rewrite A, G.
  destruct (isSome (T y id) && (bT y <=? id)); simpl; [split; [reflexivity|exact Q]|].
  split; [reflexivity|]. unfold aeq. simpl. repeat split; try congruence. intro j. unfold upd. destruct (j =? id); auto.
Qed.

Lemma s_step_aeq x y o : aeq x y -> fst (s_step x o) = fst (s_step y o) /\ aeq (snd (s_step x o)) (snd (s_step y o)).
Proof.
  intros Q. pose proof Q as [A [B [C [D [E [F [G H]]]]]]]. destruct o; simpl.
  - now apply s_add_term_aeq.
  - now apply s_add_term_aeq.
  - now apply s_add_term_aeq.
  - split; [reflexivity|]. unfold aeq. simpl. repeat split; try congruence. intro j. unfold upd. destruct (j =? id); auto.
  - unfold s_new_elem, s_has_elem. rewrite C, H. destruct (isSome (Spec.E y id) && (bE y <=? id)); simpl; [split; [reflexivity|exact Q]|].
    split; [reflexivity|]. unfold aeq. simpl. repeat split; try congruence. intro j. unfold upd. destruct (j =? id); auto.
  - rewrite C. destruct (Spec.E y id) as [e|]; [|split; [reflexivity|exact Q]].
    destruct (e_cond e =? COND_DEFERRED); simpl; [|split; [reflexivity|exact Q]].
    split; [reflexivity|]. unfold aeq. simpl. repeat split; try congruence. intro j. unfold upd. destruct (j =? id); auto.
  - split; [reflexivity|]. unfold aeq. simpl. repeat split; try congruence.
  - split; [reflexivity|]. unfold aeq. simpl. repeat split; try congruence.
  - split; [reflexivity|]. unfold aeq. simpl. repeat split; reflexivity.
  - split; [reflexivity|]. unfold aeq. simpl. repeat split; try congruence.
Qed.

(* ---------- runs ---------- *)
Fixpoint run (s : st) (ops : list op) : list Z * st :=
  match ops with
  | [] => ([], s)
  | o :: r => let '(e, s1) := step s o in let '(es, s2) := run s1 r in (e :: es, s2)
  end.
Fixpoint s_run (a : ast) (ops : list op) : list Z * ast :=
  match ops with
  | [] => ([], a)
  | o :: r => let '(e, a1) := s_step a o in let '(es, a2) := s_run a1 r in (e :: es, a2)
  end.

Lemma run_refines : forall ops s a,
  Inv s -> aeq (abs s) a -> Forall wf_op ops ->
  fst (run s ops) = fst (s_run a ops) /\ aeq (abs (snd (run s ops))) (snd (s_run a ops)) /\
  Inv (snd (run s ops)) /\ ~ In EC_FAULT (fst (run s ops)).
Proof.
  induction ops as [|o r IH]; intros s a I Q W; simpl.
  - split; [reflexivity|]. split; [exact Q|]. split; [exact I|]. intros [].
  - inversion W as [|? ? Wo Wr]; subst.
    destruct (step_refines s o I Wo) as [R1 [R2 [R3 R4]]].
    destruct (s_step_aeq _ _ o Q) as [S1 S2].
    destruct (step s o) as [e s1] eqn:Es. destruct (s_step (abs s) o) as [e' a1'] eqn:Ea. destruct (s_step a o) as [e'' a1] eqn:Ea2.
    simpl in *. specialize (IH s1 a1 R3 (aeq_trans _ _ _ R2 S2) Wr).
    destruct (run s1 r) as [es s2]. destruct (s_run a1 r) as [es' a2]. simpl in *.
    destruct IH as [H1 [H2 [H3 H4]]]. split; [congruence|]. split; [exact H2|]. split; [exact H3|].
    intros [H|H]; [congruence|contradiction].
Qed.

Lemma abs_init : aeq (abs init) a_init.
Proof.
  unfold aeq. simpl. repeat split; try reflexivity.
  - intro j. unfold vT, getTerm, hasTerm, tread. simpl. rewrite andb_false_r. reflexivity.
  - intro j. unfold vE, getElement, hasElement, eread. simpl. rewrite andb_false_r. reflexivity.
Qed.

(* ---------- lookups answer as the table ---------- *)
Lemma getTerm_abs s id : Inv s -> getTerm s id = match vT s id with Some t => Ok t | None => Err EC_UNKNOWN_TERM end.
Proof.
  intro I. unfold vT, getTerm. destruct (hasTerm s id) eqn:H; [|reflexivity].
  apply hasTerm_iff in H; [|exact I]. destruct H as [w Hw]. unfold tread. rewrite Hw.
  destruct (I_tdom s I _ _ Hw) as [_ Okw]. destruct (wview_some _ _ Okw) as [t Ht]. unfold wview in Ht.
  destruct (view_word (hp s) w); [reflexivity|discriminate].
Qed.

Lemma getElement_abs s id : Inv s -> getElement s id = match vE s id with Some e => Ok e | None => Err EC_UNKNOWN_ELEM end.
Proof.
  intro I. unfold vE, getElement. destruct (hasElement s id) eqn:H; [|reflexivity].
  apply hasElement_iff in H; [|exact I]. destruct H as [p Hp]. unfold eread. rewrite Hp.
  destruct (I_edom s I _ _ Hp) as [_ [ts [c Hc]]]. rewrite Hc. reflexivity.
Qed.

Definition lookups_agree (s : st) (a : ast) : Prop :=
  (forall id, hasTerm s id = s_has_term a id) /\
  (forall id, isNewTerm s id = s_new_term a id) /\
  (forall id, getTerm s id = match T a id with Some t => Ok t | None => Err EC_UNKNOWN_TERM end) /\
  (forall id, hasElement s id = s_has_elem a id) /\
  (forall id, isNewElement s id = s_new_elem a id) /\
  (forall id, getElement s id = match E a id with Some e => Ok e | None => Err EC_UNKNOWN_ELEM end) /\
  atom_views (hp s) (atoms s) = Ok (A a) /\ numAtoms s = Z.of_nat (length (A a)) /\ fatom s = bA a.

Lemma lookups_of_aeq s a : Inv s -> aeq (abs s) a -> lookups_agree s a.
Proof.
  intros I [QT [QnT [QE [QnE [QA [QbA [QbT QbE]]]]]]]. simpl in *. unfold lookups_agree.
  assert (HT : forall id, hasTerm s id = s_has_term a id).
  { intro id. rewrite <- (has_term_abs s id I). unfold s_has_term. simpl. now rewrite QT. }
  assert (HE : forall id, hasElement s id = s_has_elem a id).
  { intro id. rewrite <- (has_elem_abs s id I). unfold s_has_elem. simpl. now rewrite QE. }
  split; [exact HT|]. split.
  { intro id. unfold isNewTerm, s_new_term. now rewrite HT, QbT. }
  split. { intro id. rewrite (getTerm_abs s id I). now rewrite QT. }
  split; [exact HE|]. split.
  { intro id. unfold isNewElement, s_new_elem. now rewrite HE, QbE. }
  split. { intro id. rewrite (getElement_abs s id I). now rewrite QE. }
  split. { rewrite <- QA, (vA_char s I). apply atom_views_ok. apply (I_adom s I). }
  split. { rewrite <- QA, (vA_char s I), map_length. reflexivity. }
  exact QbA.
Qed.

(* ---------- the ledger ---------- *)
Definition owners (s : st) : list Z := ptrs (terms s) ++ map snd (elems s) ++ atoms s.

Lemma NoDup_app_intro {X} (l1 l2 : list X) : NoDup l1 -> NoDup l2 -> (forall x, In x l1 -> ~ In x l2) -> NoDup (l1 ++ l2).
Proof.
  induction l1 as [|y l1 IH]; simpl; intros N1 N2 D; [exact N2|].
  inversion N1; subst. constructor.
  - intro H. apply in_app_or in H. destruct H as [H|H]; [contradiction|]. apply (D y); [now left|exact H].
  - apply IH; auto.
Qed.

Lemma owners_In s a : Inv s -> (In a (owners s) <-> owned s a).
Proof.
  intro I. unfold owners, owned. rewrite in_app_iff, in_app_iff, ptrs_In, in_map_iff. split.
  - intros [[id [w [H1 H2]]]|[[[id p] [E H]]|H]].
    + left. exists id, w. split; [|exact H2]. apply In_aget; [apply (I_tkeys s I)|exact H1].
    + right; left. simpl in E. subst p. exists id. apply In_aget; [apply (I_ekeys s I)|exact H].
    + right; right. exact H.
  - intros [[id [w [H1 H2]]]|[[id H]|H]].
    + left. exists id, w. split; [now apply aget_In|exact H2].
    + right; left. exists (id, a). split; [reflexivity|now apply aget_In].
    + right; right. exact H.
Qed.

Lemma owners_NoDup s : Inv s -> NoDup (owners s).
Proof.
  intro I. unfold owners.
  assert (InT : forall id w, In (id, w) (terms s) -> aget (terms s) id = Some w) by (intros; apply In_aget; [apply (I_tkeys s I)|assumption]).
  assert (InE : forall id p, In (id, p) (elems s) -> aget (elems s) id = Some p) by (intros; apply In_aget; [apply (I_ekeys s I)|assumption]).
  apply NoDup_app_intro; [|apply NoDup_app_intro|].
  - apply NoDup_ptrs; [apply (I_tkeys s I)|]. intros i j wi wj Hi Hj. apply InT in Hi. apply InT in Hj. now apply (I_tinj s I).
  - apply NoDup_snd; [apply (I_ekeys s I)|]. intros i j p Hi Hj. apply InE in Hi. apply InE in Hj. eapply (I_einj s I); eauto.
  - apply (I_anodup s I).
  - intros x Hx Ha. apply in_map_iff in Hx. destruct Hx as [[id p] [E H]]. simpl in E. subst p. apply InE in H.
    exact (elem_atom_disjoint s id x x I H Ha eq_refl).
  - intros x Hx Hy. apply ptrs_In in Hx. destruct Hx as [id [w [H1 [P G]]]]. apply InT in H1. apply in_app_or in Hy.
    destruct Hy as [Hy|Hy].
    + apply in_map_iff in Hy. destruct Hy as [[j p] [E H]]. simpl in E. subst p. apply InE in H.
      exact (term_elem_disjoint s id w j x I H1 P H G).
    + exact (term_atom_disjoint s id w x I H1 P Hy G).
Qed.

(* live cells = exactly the cells owned by a stored item; each item owns its own cell *)
Theorem ledger_exact s : Inv s ->
  (forall a, (exists o, hfind (hp s) a = Some o) <-> owned s a) /\
  Permutation (map fst (cells (hp s))) (owners s) /\
  live (hp s) = Z.of_nat (length (owners s)).
Proof.
  intro I.
  assert (A : forall a, (exists o, hfind (hp s) a = Some o) <-> owned s a).
  { intro a. split.
    - intros [o H]. eapply (I_owned s I); eauto.
    - intros [[id [w [H [P G]]]]|[[id H]|H]].
      + destruct (I_tdom s I _ _ H) as [_ Okw]. destruct (word_ok_ptr_live _ _ Okw P) as [o [Ho _]]. subst a. eauto.
      + destruct (I_edom s I _ _ H) as [_ [ts [c Hc]]]. eauto.
      + destruct (I_adom s I _ H) as [x [t [es [g Ha]]]]. eauto. }
  assert (P : Permutation (map fst (cells (hp s))) (owners s)).
  { apply NoDup_Permutation; [apply (I_ckeys s I)|apply owners_NoDup; exact I|].
    intro a. rewrite (owners_In s a I), <- A. split.
    - apply key_live.
    - intros [o H]. unfold hfind in H. eapply aget_Some_key; eauto. }
  split; [exact A|]. split; [exact P|].
  unfold live. f_equal. rewrite <- (Permutation_length P), map_length. reflexivity.
Qed.

(* a refused redefinition leaves the store (and the ledger) as it was; the symbol and compound overloads have made and
   released their copy by then, so only the fresh-address counter moved *)
Definition same_store (s s' : st) : Prop :=
  terms s' = terms s /\ nterms s' = nterms s /\ elems s' = elems s /\ nelems s' = nelems s /\ atoms s' = atoms s /\
  fatom s' = fatom s /\ fterm s' = fterm s /\ felem s' = felem s /\ cells (hp s') = cells (hp s).

Theorem redefinition_refused s id :
  Inv s -> 0 <= id -> isNewTerm s id = true ->
  (forall n, step s (OAddNum id n) = (EC_REDEF_TERM, s)) /\
  (forall b, fst (step s (OAddSym id b)) = EC_REDEF_TERM /\ same_store s (snd (step s (OAddSym id b)))) /\
  (forall base args, fst (step s (OAddComp id base args)) = EC_REDEF_TERM /\ same_store s (snd (step s (OAddComp id base args)))).
Proof.
  intros I Hid Hn.
  destruct (setTerm_spec s id I Hid) as [[_ E]|[Hf _]]; [|congruence].
  split; [|split].
  - intro n. simpl. unfold addTermNum. rewrite E. reflexivity.
  - intro b. cbn [step]. rewrite addTermSym_unfold. destruct (I_next s I) as [_ Na].
    rewrite (mk_ptr_ok _ _ Na), (setTerm_alloc s id _ I), E.
    change K_SYM with (kind (OSym b)). rewrite (hfree_alloc _ _ (next_fresh s I)).
    split; [reflexivity|]. unfold same_store. simpl. repeat split; reflexivity.
  - intros base args. cbn [step]. rewrite addTermComp_unfold. destruct (I_next s I) as [_ Na].
    rewrite (mk_ptr_ok _ _ Na), (setTerm_alloc s id _ I), E.
    change K_FUNC with (kind (OFunc base args)). rewrite (hfree_alloc _ _ (next_fresh s I)).
    split; [reflexivity|]. unfold same_store. simpl. repeat split; reflexivity.
Qed.

Theorem redefinition_refused_elem s id ts c :
  Inv s -> isNewElement s id = true -> step s (OAddElem id ts c) = (EC_REDEF_ELEM, s).
Proof.
  intros I Hn. simpl. unfold addElement. unfold isNewElement in Hn. apply andb_true_iff in Hn. destruct Hn as [H1 H2].
  rewrite H1. unfold isNewElement. rewrite H1, H2. reflexivity.
Qed.

(* redefinition of an item from an earlier step replaces it *)
Theorem redefinition_replaces s id n :
  Inv s -> 0 <= id -> -2147483648 <= n <= 2147483647 -> isNewTerm s id = false ->
  fst (step s (OAddNum id n)) = 0 /\ getTerm (snd (step s (OAddNum id n))) id = Ok (ANum n).
Proof.
  intros I Hid Hn Hnew.
  destruct (step_refines s (OAddNum id n) I (conj Hid Hn)) as [R1 [R2 [R3 _]]].
  cbn [s_step] in R1, R2. unfold s_add_term in R1, R2. rewrite new_term_abs in R1, R2 by exact I. rewrite Hnew in R1, R2.
  split; [exact R1|]. rewrite (getTerm_abs _ id R3). destruct R2 as [QT _]. simpl in QT. rewrite QT. unfold upd. rewrite Z.eqb_refl. reflexivity.
Qed.
