(* C12 - completeness of the recursive visitor: when it finishes without error it has emitted every atom it was
   given and every element / term reachable from them through the references accept() follows. *)
Require Import V.Lib.Base V.Lib.Calls V.Gen.Consts V.Gen.Consts_C12 V.C12.Spec V.C12.Model
  V.C12.ProofsBase V.C12.ProofsInv V.C12.ProofsRef V.C12.ProofsHist V.C12.ProofsVisit.
Require Import ZifyBool.
Local Open Scope Z_scope.

Lemma fold_err {X} (f : vacc -> X -> vacc * Z) : forall l v e,
  e <> 0 -> fold_left (fun acc x => vbind acc (fun a' => f a' x)) l (v, e) = (v, e).
Proof.
  induction l as [|x l IH]; intros v e He; cbn [fold_left]; [reflexivity|].
  unfold vbind at 2. cbn [fst snd]. destruct (Z.eqb_spec e 0); [contradiction|]. now apply IH.
Qed.

Definition isVT (v : vref) : Prop := match v with VT _ _ => True | VE _ _ => False end.
Definition isVE (v : vref) : Prop := match v with VE _ _ => True | VT _ _ => False end.
Lemma tv_kind cur a ids : Forall isVT (fst (s_term_visits cur a ids)).
Proof.
  induction ids as [|id r IH]; simpl; [constructor|].
  destruct (negb cur || s_new_term a id); [|exact IH]. destruct (T a id); [|constructor].
  destruct (s_term_visits cur a r). simpl in *. constructor; [exact Logic.I|exact IH].
Qed.
Lemma ev_kind cur a ids : Forall isVE (fst (s_elem_visits cur a ids)).
Proof.
  induction ids as [|id r IH]; simpl; [constructor|].
  destruct (negb cur || s_new_elem a id); [|exact IH]. destruct (E a id); [|constructor].
  destruct (s_elem_visits cur a r). simpl in *. constructor; [exact Logic.I|exact IH].
Qed.

Section Closure.
Variable cur : bool.
Variable s : st.
Hypothesis I : Inv s.
Let a := abs s.

(* the references a traversal in this mode follows *)
Definition vis_t (ids : list Z) : list Z := if cur then filter (s_new_term a) ids else ids.
Definition vis_e (ids : list Z) : list Z := if cur then filter (s_new_elem a) ids else ids.

Lemma tv_ids ids : snd (s_term_visits cur a ids) = 0 -> map vref_id (fst (s_term_visits cur a ids)) = vis_t ids.
Proof.
  unfold vis_t. destruct cur.
  - intros _. apply s_term_visits_cur.
  - intro H. now apply s_term_visits_all.
Qed.
Lemma ev_ids ids : snd (s_elem_visits cur a ids) = 0 -> map vref_id (fst (s_elem_visits cur a ids)) = vis_e ids.
Proof.
  unfold vis_e. destruct cur.
  - intros _. apply s_elem_visits_cur.
  - intro H. now apply s_elem_visits_all.
Qed.

(* an item is done: emitted with its stored content, and everything it refers to has been marked *)
Definition doneT (v : vacc) (j : Z) : Prop :=
  exists t, T a j = Some t /\ In (call_of_term j t) (vout v) /\ incl (vis_t (term_refs t)) (seenT v).
Definition doneE (v : vacc) (j : Z) : Prop :=
  exists x, E a j = Some x /\ In (call_of_elem j x) (vout v) /\ incl (vis_t (e_terms x)) (seenT v).
Definition EXT (v v' : vacc) : Prop :=
  incl (seenT v) (seenT v') /\ incl (seenE v) (seenE v') /\ incl (vout v) (vout v') /\
  (forall j, In j (seenT v') -> ~ In j (seenT v) -> doneT v' j) /\
  (forall j, In j (seenE v') -> ~ In j (seenE v) -> doneE v' j).

Lemma doneT_mono v v' j : doneT v j -> incl (seenT v) (seenT v') -> incl (vout v) (vout v') -> doneT v' j.
Proof. intros [t [A [B C]]] S O. exists t. split; [exact A|]. split; [now apply O|]. intros x Hx. apply S. now apply C. Qed.
Lemma doneE_mono v v' j : doneE v j -> incl (seenT v) (seenT v') -> incl (vout v) (vout v') -> doneE v' j.
Proof. intros [t [A [B C]]] S O. exists t. split; [exact A|]. split; [now apply O|]. intros x Hx. apply S. now apply C. Qed.

Lemma EXT_refl v : EXT v v.
Proof. unfold EXT. repeat split; try apply incl_refl; intros; contradiction. Qed.
Lemma EXT_trans v1 v2 v3 : EXT v1 v2 -> EXT v2 v3 -> EXT v1 v3.
Proof.
  intros [A1 [A2 [A3 [A4 A5]]]] [B1 [B2 [B3 [B4 B5]]]]. unfold EXT.
  split; [eapply incl_tran; eauto|]. split; [eapply incl_tran; eauto|]. split; [eapply incl_tran; eauto|]. split.
  - intros j H3 H1. destruct (in_dec Z.eq_dec j (seenT v2)) as [H2|H2]; [|now apply B4].
    eapply doneT_mono; [apply A4; assumption|exact B1|exact B3].
  - intros j H3 H1. destruct (in_dec Z.eq_dec j (seenE v2)) as [H2|H2]; [|now apply B5].
    eapply doneE_mono; [apply A5; assumption|exact B1|exact B3].
Qed.

Lemma fold_ext {X} (f : vacc -> X -> vacc * Z) (key : X -> vacc -> Prop) (Q : X -> Prop) :
  (forall v x v', Q x -> f v x = (v', 0) -> EXT v v' /\ key x v') ->
  (forall x v v', key x v -> EXT v v' -> key x v') ->
  forall l v v', Forall Q l -> fold_left (fun acc x => vbind acc (fun a' => f a' x)) l (v, 0) = (v', 0) ->
  EXT v v' /\ forall x, In x l -> key x v'.
Proof.
  intros Hf Hm. induction l as [|x l IH]; intros v v' HQ H; cbn [fold_left] in H.
  - inversion H; subst. split; [apply EXT_refl|intros x []].
  - inversion HQ as [|? ? Qx Ql]; subst. unfold vbind at 2 in H. cbn [fst snd] in H. change (0 =? 0) with true in H. cbv iota in H.
    destruct (f v x) as [v1 e1] eqn:F1. destruct (Z.eq_dec e1 0) as [E1|E1].
    + subst e1. destruct (Hf v x v1 Qx F1) as [X1 K1]. destruct (IH v1 v' Ql H) as [X2 K2].
      split; [eapply EXT_trans; eauto|]. intros y [Hy|Hy]; [subst y; eapply Hm; eauto|now apply K2].
    + rewrite (fold_err f l v1 e1 E1) in H. inversion H. contradiction.
Qed.

Definition keyr (x : vref) (v : vacc) : Prop := match x with VT i _ => In i (seenT v) | VE i _ => In i (seenE v) end.
Lemma keyr_mono x v v' : keyr x v -> EXT v v' -> keyr x v'.
Proof. intros K [A [B _]]. destruct x; simpl in *; auto. Qed.

Lemma ids_seen refs ids v : map vref_id refs = ids -> Forall isVT refs -> (forall x, In x refs -> keyr x v) -> incl ids (seenT v).
Proof.
  intros M K H i Hi. subst ids. apply in_map_iff in Hi. destruct Hi as [x [E Hx]].
  specialize (H x Hx). rewrite Forall_forall in K. specialize (K x Hx). destruct x; simpl in *; [subst; exact H|contradiction].
Qed.
Lemma ids_seenE refs ids v : map vref_id refs = ids -> Forall isVE refs -> (forall x, In x refs -> keyr x v) -> incl ids (seenE v).
Proof.
  intros M K H i Hi. subst ids. apply in_map_iff in Hi. destruct Hi as [x [E Hx]].
  specialize (H x Hx). rewrite Forall_forall in K. specialize (K x Hx). destruct x; simpl in *; [contradiction|subst; exact H].
Qed.

Lemma Forall_and {X} (P Q : X -> Prop) l : Forall P l -> Forall Q l -> Forall (fun x => P x /\ Q x) l.
Proof. intros A B. rewrite Forall_forall in *. auto. Qed.

Lemma visit_term_ext : forall f id t v v',
  vref_ok cur a (VT id t) -> visit_term f cur s id t v = (v', 0) -> EXT v v' /\ In id (seenT v').
Proof.
  induction f as [|f IH]; intros id t v v' Hv H.
  - cbn [visit_term] in H. inversion H.
  - cbn [visit_term] in H. destruct (mem id (seenT v)) eqn:M.
    + inversion H; subst. split; [apply EXT_refl|now apply mem_In].
    + destruct (accept_abs cur s I) as [AT _]. rewrite (AT t) in H. unfold s_accept_term in H. fold a in H.
      pose proof (s_term_visits_sound cur a (term_refs t)) as Snd. pose proof (tv_kind cur a (term_refs t)) as Kd.
      pose proof (tv_ids (term_refs t)) as Ids.
      destruct (s_term_visits cur a (term_refs t)) as [refs e]. cbn [fst snd] in *.
      set (v1 := mkv (id :: seenT v) (seenE v) (vout v)) in *.
      destruct (fold_left _ refs (v1, 0)) as [v2 e2] eqn:FL.
      destruct (vbind_tail v2 e2 e (call_of_term id t)) as [[E2 [E0 R]]|[[E2 [E0 R]]|[E2 R]]]; rewrite R in H; inversion H; subst; try contradiction.
      destruct (fold_ext (fun a' x => match x with VT i t' => visit_term f cur s i t' a' | VE _ _ => (a', 0) end) keyr
                  (fun x => vref_ok cur a x /\ isVT x)) with (l := refs) (v := v1) (v' := v2) as [X K].
      * intros w x w' [Qx Kx] Hw. destruct x as [i t'|i x']; [|contradiction]. exact (IH i t' w w' Qx Hw).
      * apply keyr_mono.
      * now apply Forall_and.
      * exact FL.
      * destruct X as [A1 [A2 [A3 [A4 A5]]]]. destruct Hv as [Ht Hn].
        assert (S1 : incl (seenT v) (seenT v2)) by (intros x Hx; apply A1; now right).
        split.
        -- unfold EXT. cbn [emit seenT seenE vout]. split; [exact S1|]. split; [exact A2|].
           split; [intros x Hx; apply in_or_app; left; now apply A3|]. split.
           ++ intros j Hj Hn'. destruct (Z.eq_dec j id) as [E|E].
              ** subst j. exists t. split; [exact Ht|]. split; [apply in_or_app; right; now left|].
                 eapply ids_seen; [apply Ids; reflexivity|exact Kd|exact K].
              ** assert (D : doneT v2 j) by (apply A4; [exact Hj|]; intros [Hx|Hx]; [congruence|contradiction]).
                 eapply doneT_mono; [exact D|apply incl_refl|]. intros x Hx. apply in_or_app. now left.
           ++ intros j Hj Hn'. assert (D : doneE v2 j) by (now apply A5).
              eapply doneE_mono; [exact D|apply incl_refl|]. intros x Hx. apply in_or_app. now left.
        -- cbn [emit seenT]. apply A1. now left.
Qed.

Lemma visit_elem_ext f id x v v' :
  vref_ok cur a (VE id x) -> visit_elem f cur s id x v = (v', 0) -> EXT v v' /\ In id (seenE v').
Proof.
  intros Hv H. unfold visit_elem in H. destruct (mem id (seenE v)) eqn:M.
  - inversion H; subst. split; [apply EXT_refl|now apply mem_In].
  - destruct (accept_abs cur s I) as [_ [AE _]]. rewrite (AE x) in H. unfold s_accept_elem, visit_refs in H. fold a in H.
    pose proof (s_term_visits_sound cur a (e_terms x)) as Snd. pose proof (tv_kind cur a (e_terms x)) as Kd.
    pose proof (tv_ids (e_terms x)) as Ids.
    destruct (s_term_visits cur a (e_terms x)) as [refs e]. cbn [fst snd] in *.
    set (v1 := mkv (seenT v) (id :: seenE v) (vout v)) in *.
    destruct (fold_left _ refs (v1, 0)) as [v2 e2] eqn:FL.
    destruct (vbind_tail v2 e2 e (call_of_elem id x)) as [[E2 [E0 R]]|[[E2 [E0 R]]|[E2 R]]]; rewrite R in H; inversion H; subst; try contradiction.
    destruct (fold_ext (fun a' y => match y with VT i t => visit_term f cur s i t a' | VE i x0 => (a', 0) end) keyr
                (fun y => vref_ok cur a y /\ isVT y)) with (l := refs) (v := v1) (v' := v2) as [X K].
    + intros w y w' [Qy Ky] Hw. destruct y as [i t'|i x']; [|contradiction]. exact (visit_term_ext f i t' w w' Qy Hw).
    + apply keyr_mono.
    + now apply Forall_and.
    + exact FL.
    + destruct X as [A1 [A2 [A3 [A4 A5]]]]. destruct Hv as [Ht Hn].
      split.
      * unfold EXT. cbn [emit seenT seenE vout]. split; [exact A1|]. split; [intros y Hy; apply A2; now right|].
        split; [intros y Hy; apply in_or_app; left; now apply A3|]. split.
        -- intros j Hj Hn'. assert (D : doneT v2 j) by (now apply A4).
           eapply doneT_mono; [exact D|apply incl_refl|]. intros y Hy. apply in_or_app. now left.
        -- intros j Hj Hn'. destruct (Z.eq_dec j id) as [E|E].
           ++ subst j. exists x. split; [exact Ht|]. split; [apply in_or_app; right; now left|].
              eapply ids_seen; [apply Ids; reflexivity|exact Kd|exact K].
           ++ assert (D : doneE v2 j) by (apply A5; [exact Hj|]; intros [Hy|Hy]; [congruence|contradiction]).
              eapply doneE_mono; [exact D|apply incl_refl|]. intros y Hy. apply in_or_app. now left.
      * cbn [emit seenE]. apply A2. now left.
Qed.

(* what finishing an atom establishes *)
Definition keya (x : aatom) (v : vacc) : Prop :=
  In (call_of_atom x) (vout v) /\ incl (vis_t (a_term x :: atom_term_refs x)) (seenT v) /\ incl (vis_e (a_elems x)) (seenE v).
Lemma keya_mono x v v' : keya x v -> EXT v v' -> keya x v'.
Proof.
  intros [K1 [K2 K3]] [A [B [C _]]]. split; [now apply C|]. split; intros y Hy; [apply A; now apply K2|apply B; now apply K3].
Qed.

Lemma vis_t_app l1 l2 : vis_t (l1 ++ l2) = vis_t l1 ++ vis_t l2.
Proof. unfold vis_t. destruct cur; [apply filter_app|reflexivity]. Qed.

Lemma visit_atom_ext f x v v' : visit_atom f cur s x v = (v', 0) -> EXT v v' /\ keya x v'.
Proof.
  intro H. unfold visit_atom, visit_refs in H.
  destruct (accept_abs cur s I) as [_ [_ [AA _]]]. rewrite (AA x) in H. fold a in H.
  pose proof (s_accept_atom_sound cur a x) as Snd.
  (* decomposition of the reference list when there is no error *)
  assert (Dec : snd (s_accept_atom cur a x) = 0 ->
     fst (s_accept_atom cur a x) = fst (s_term_visits cur a [a_term x]) ++ fst (s_elem_visits cur a (a_elems x)) ++ fst (s_term_visits cur a (atom_term_refs x)) /\
     snd (s_term_visits cur a [a_term x]) = 0 /\ snd (s_elem_visits cur a (a_elems x)) = 0 /\ snd (s_term_visits cur a (atom_term_refs x)) = 0).
  { unfold s_accept_atom, seq_visits.
    destruct (Z.eqb_spec (snd (s_term_visits cur a [a_term x])) 0) as [E1|E1]; cbn [fst snd]; [|intro; contradiction].
    destruct (Z.eqb_spec (snd (s_elem_visits cur a (a_elems x))) 0) as [E2|E2]; cbn [fst snd]; [|intro; contradiction].
    intro E3. auto. }
  destruct (s_accept_atom cur a x) as [refs e]. cbn [fst snd] in *.
  destruct (fold_left _ refs (v, 0)) as [v2 e2] eqn:FL.
  destruct (vbind_tail v2 e2 e (call_of_atom x)) as [[E2 [E0 R]]|[[E2 [E0 R]]|[E2 R]]]; rewrite R in H; inversion H; subst; try contradiction.
  destruct (fold_ext (fun a' y => match y with VT i t => visit_term f cur s i t a' | VE i x0 => visit_elem f cur s i x0 a' end) keyr
              (vref_ok cur a)) with (l := refs) (v := v) (v' := v2) as [X K].
  - intros w y w' Qy Hw. destruct y as [i t'|i x']; [exact (visit_term_ext f i t' w w' Qy Hw)|exact (visit_elem_ext f i x' w w' Qy Hw)].
  - apply keyr_mono.
  - exact Snd.
  - exact FL.
  - destruct (Dec eq_refl) as [D0 [D1 [D2 D3]]]. destruct X as [A1 [A2 [A3 [A4 A5]]]].
    assert (KT1 : forall y, In y (fst (s_term_visits cur a [a_term x])) -> keyr y v2) by (intros y Hy; apply K; rewrite D0; apply in_or_app; now left).
    assert (KE : forall y, In y (fst (s_elem_visits cur a (a_elems x))) -> keyr y v2) by (intros y Hy; apply K; rewrite D0; apply in_or_app; right; apply in_or_app; now left).
    assert (KT2 : forall y, In y (fst (s_term_visits cur a (atom_term_refs x))) -> keyr y v2) by (intros y Hy; apply K; rewrite D0; apply in_or_app; right; apply in_or_app; now right).
    split.
    + unfold EXT. cbn [emit seenT seenE vout]. split; [exact A1|]. split; [exact A2|].
      split; [intros y Hy; apply in_or_app; left; now apply A3|]. split.
      * intros j Hj Hn'. eapply doneT_mono; [apply A4; eassumption|apply incl_refl|]. intros y Hy. apply in_or_app. now left.
      * intros j Hj Hn'. eapply doneE_mono; [apply A5; eassumption|apply incl_refl|]. intros y Hy. apply in_or_app. now left.
    + unfold keya. cbn [emit seenT seenE vout]. split; [apply in_or_app; right; now left|]. split.
      * change (a_term x :: atom_term_refs x) with ([a_term x] ++ atom_term_refs x). rewrite vis_t_app.
        apply incl_app; [eapply ids_seen; [apply tv_ids; exact D1|apply tv_kind|exact KT1]|eapply ids_seen; [apply tv_ids; exact D3|apply tv_kind|exact KT2]].
      * eapply ids_seenE; [apply ev_ids; exact D2|apply ev_kind|exact KE].
Qed.

(* ---------- reachability on the table, along the references followed in this mode ---------- *)
Definition top : list aatom := s_accept_top cur a.
Definition rE (e : Z) : Prop := exists x, In x top /\ In e (vis_e (a_elems x)).
Inductive rT : Z -> Prop :=
| rT_atom x i : In x top -> In i (vis_t (a_term x :: atom_term_refs x)) -> rT i
| rT_elem e x i : rE e -> E a e = Some x -> In i (vis_t (e_terms x)) -> rT i
| rT_term j t i : rT j -> T a j = Some t -> In i (vis_t (term_refs t)) -> rT i.

Theorem visit_complete :
  snd (visit cur s) = 0 ->
  (forall x, In x top -> In (call_of_atom x) (fst (visit cur s))) /\
  (forall e, rE e -> exists x, E a e = Some x /\ In (call_of_elem e x) (fst (visit cur s))) /\
  (forall i, rT i -> exists t, T a i = Some t /\ In (call_of_term i t) (fst (visit cur s))).
Proof.
  unfold visit. destruct (accept_abs cur s I) as [_ [_ [_ AT]]]. rewrite AT. fold a. fold top.
  destruct (fold_left (fun acc x => vbind acc (visit_atom (visit_fuel s) cur s x)) top (mkv [] [] [], 0)) as [v e] eqn:FL.
  cbn [fst snd]. intro E0. subst e.
  destruct (fold_ext (fun a' x => visit_atom (visit_fuel s) cur s x a') keya (fun _ => True)) with (l := top) (v := mkv [] [] []) (v' := v) as [X K].
  - intros w x w' _ Hw. exact (visit_atom_ext (visit_fuel s) x w w' Hw).
  - apply keya_mono.
  - apply Forall_forall. auto.
  - exact FL.
  - destruct X as [_ [_ [_ [A4 A5]]]]. cbn [seenT seenE] in A4, A5.
    assert (DT : forall j, In j (seenT v) -> doneT v j) by (intros j Hj; apply A4; [exact Hj|intros []]).
    assert (DE : forall j, In j (seenE v) -> doneE v j) by (intros j Hj; apply A5; [exact Hj|intros []]).
    assert (SE : forall e, rE e -> In e (seenE v)).
    { intros e [x [Hx He]]. destruct (K x Hx) as [_ [_ K3]]. now apply K3. }
    assert (ST : forall i, rT i -> In i (seenT v)).
    { intros i R. induction R as [x i Hx Hi|e x i He Ex Hi|j t i Rj IH Tj Hi].
      - destruct (K x Hx) as [_ [K2 _]]. now apply K2.
      - destruct (DE e (SE e He)) as [x' [Ex' [_ C]]]. rewrite Ex in Ex'. inversion Ex'; subst. now apply C.
      - destruct (DT j IH) as [t' [Tj' [_ C]]]. rewrite Tj in Tj'. inversion Tj'; subst. now apply C. }
    split; [intros x Hx; apply (K x Hx)|]. split.
    + intros e He. destruct (DE e (SE e He)) as [x [Ex [Cx _]]]. eauto.
    + intros i Ri. destruct (DT i (ST i Ri)) as [t [Ti [Ci _]]]. eauto.
Qed.
End Closure.
