(* C12 - basic lemmas: association lists, the tagged word, the heap. *)
Require Import V.Lib.Base V.Lib.Calls V.Gen.Consts V.Gen.Consts_C12 V.C12.Spec V.C12.Model.
Require Import ZifyBool.
Local Open Scope Z_scope.
Ltac Zify.zify_post_hook ::= Z.div_mod_to_equations.

(* ---------- association lists ---------- *)
Section AL.
Context {V : Type}.
Implicit Types m : list (Z * V).

Lemma aget_adel m k k' : aget (adel m k) k' = if k =? k' then None else aget m k'.
Proof.
  induction m as [|[k0 v0] m IH]; simpl.
  - destruct (k =? k'); reflexivity.
  - destruct (Z.eqb_spec k0 k) as [E|E]; simpl.
    + rewrite IH. subst. destruct (Z.eqb_spec k k'); reflexivity.
    + rewrite IH. destruct (Z.eqb_spec k0 k') as [E1|E1]; [|reflexivity].
      destruct (Z.eqb_spec k k'); [lia|reflexivity].
Qed.

Lemma aget_aset m k v k' : aget (aset m k v) k' = if k =? k' then Some v else aget m k'.
Proof.
  unfold aset. simpl. destruct (Z.eqb_spec k k') as [E|E]; [reflexivity|].
  rewrite aget_adel. destruct (Z.eqb_spec k k'); [lia|reflexivity].
Qed.

Lemma aget_In m k v : aget m k = Some v -> In (k, v) m.
Proof.
  induction m as [|[k0 v0] m IH]; simpl; [discriminate|].
  destruct (Z.eqb_spec k0 k) as [E|E]; intro H.
  - inversion H; subst. now left.
  - right. now apply IH.
Qed.

Lemma aget_Some_key m k v : aget m k = Some v -> In k (map fst m).
Proof. intro H. apply aget_In in H. change k with (fst (k, v)). now apply in_map. Qed.

Lemma aget_None m k : aget m k = None <-> ~ In k (map fst m).
Proof.
  induction m as [|[k0 v0] m IH]; simpl; [tauto|].
  destruct (Z.eqb_spec k0 k) as [E|E].
  - split; [discriminate|]. intro H. exfalso. apply H. now left.
  - rewrite IH. split; intro H; [intros [H1|H1]; [lia|tauto]|tauto].
Qed.

Lemma In_aget m k v : NoDup (map fst m) -> In (k, v) m -> aget m k = Some v.
Proof.
  induction m as [|[k0 v0] m IH]; simpl; [tauto|].
  intros ND [H|H].
  - inversion H; subst. now rewrite Z.eqb_refl.
  - inversion ND as [|? ? Hn ND']; subst.
    destruct (Z.eqb_spec k0 k) as [E|E].
    + subst. exfalso. apply Hn. change k with (fst (k, v)). now apply in_map.
    + now apply IH.
Qed.

Lemma adel_keys m k x : In x (map fst (adel m k)) <-> In x (map fst m) /\ x <> k.
Proof.
  induction m as [|[k0 v0] m IH]; simpl; [tauto|].
  destruct (Z.eqb_spec k0 k) as [E|E]; simpl; rewrite IH; intuition (subst; try lia; auto).
Qed.

Lemma NoDup_adel m k : NoDup (map fst m) -> NoDup (map fst (adel m k)).
Proof.
  induction m as [|[k0 v0] m IH]; simpl; [auto|].
  intro ND. inversion ND as [|? ? Hn ND']; subst.
  destruct (Z.eqb_spec k0 k) as [E|E]; simpl; [auto|].
  constructor; [|auto]. rewrite adel_keys. tauto.
Qed.

Lemma NoDup_aset m k v : NoDup (map fst m) -> NoDup (map fst (aset m k v)).
Proof.
  intro ND. unfold aset. simpl. constructor; [|now apply NoDup_adel].
  rewrite adel_keys. intros [_ H]. now apply H.
Qed.

Lemma adel_absent m k : aget m k = None -> adel m k = m.
Proof.
  induction m as [|[k0 v0] m IH]; simpl; [reflexivity|].
  destruct (Z.eqb_spec k0 k) as [E|E]; [discriminate|]. intro H. now rewrite IH.
Qed.

Lemma adel_In m k x : In x (adel m k) -> In x m.
Proof.
  induction m as [|[k0 v0] m IH]; simpl; [tauto|].
  destruct (Z.eqb_spec k0 k) as [E|E]; simpl; intuition.
Qed.

Lemma length_adel m k v : NoDup (map fst m) -> aget m k = Some v -> length m = S (length (adel m k)).
Proof.
  induction m as [|[k0 v0] m IH]; simpl; [discriminate|].
  intros ND H. inversion ND as [|? ? Hn ND']; subst.
  destruct (Z.eqb_spec k0 k) as [E|E].
  - subst. rewrite adel_absent; [reflexivity|]. now apply aget_None.
  - simpl. f_equal. now apply IH.
Qed.
End AL.

(* ---------- the tagged word ---------- *)
Ltac unfw := unfold mk_num, number, wtype, getPtr, valid, wrap32, mk_ptr, TYPE_MOD, TYPE_MASK, TAG_MUL, WORD, NUL_TERM, ALIGN,
  Theory_t_Number, Theory_t_Symbol, Theory_t_Compound in *.

Lemma number_mk_num n : -2147483648 <= n <= 2147483647 -> number (mk_num n) = n.
Proof. intro H. unfw. lia. Qed.

Lemma wtype_mk_num n : wtype (mk_num n) = Theory_t_Number.
Proof. unfw. lia. Qed.

Lemma valid_mk_num n : valid (mk_num n) = true.
Proof. unfw. lia. Qed.

Lemma mk_num_range n : 0 <= mk_num n < WORD.
Proof. unfw. lia. Qed.

Lemma mk_ptr_ok a tag : a mod ALIGN = 0 -> mk_ptr a tag = Ok (a + tag).
Proof. intro H. unfold mk_ptr. rewrite H. reflexivity. Qed.

Lemma wtype_ptr a tag : a mod ALIGN = 0 -> 0 <= tag < 4 -> wtype (a + tag) = tag.
Proof. intros. unfw. lia. Qed.

Lemma getPtr_ptr a tag : a mod ALIGN = 0 -> 0 <= tag < 4 -> getPtr (a + tag) = a.
Proof. intros. unfw. lia. Qed.

Lemma valid_ptr a tag : a mod ALIGN = 0 -> 0 <= tag < 3 -> valid (a + tag) = true.
Proof. intros. unfw. lia. Qed.

(* ---------- heap ---------- *)
Lemma hfind_alloc o h a : hfind (snd (halloc o h)) a = if next h =? a then Some o else hfind h a.
Proof. reflexivity. Qed.

Lemma next_alloc o h : next (snd (halloc o h)) = next h + ALIGN.
Proof. reflexivity. Qed.

Lemma hfree_spec k a h h' :
  hfree k a h = Ok h' ->
  (exists o, hfind h a = Some o /\ kind o = k) /\ next h' = next h /\ cells h' = adel (cells h) a /\
  (forall b, hfind h' b = if a =? b then None else hfind h b).
Proof.
  unfold hfree. destruct (hfind h a) as [o|] eqn:E; [|discriminate].
  destruct (Z.eqb_spec (kind o) k) as [K|K]; [|discriminate].
  intro H. inversion H; subst; clear H. simpl.
  split; [eauto|]. split; [reflexivity|]. split; [reflexivity|].
  intro b. unfold hfind. simpl. apply aget_adel.
Qed.

Lemma hfree_ok k a h o : hfind h a = Some o -> kind o = k -> exists h', hfree k a h = Ok h'.
Proof.
  intros H K. unfold hfree. rewrite H. rewrite K, Z.eqb_refl. eauto.
Qed.

Lemma hfind_write a o h b : hfind (hwrite a o h) b = if a =? b then Some o else hfind h b.
Proof. unfold hfind, hwrite. simpl. apply aget_aset. Qed.

Lemma hfree_alloc o h : hfind h (next h) = None -> hfree (kind o) (next h) (snd (halloc o h)) = Ok (mkh (cells h) (next h + ALIGN)).
Proof.
  intro H. unfold hfree. rewrite hfind_alloc, Z.eqb_refl, Z.eqb_refl. simpl. rewrite Z.eqb_refl.
  f_equal. f_equal. now apply adel_absent.
Qed.
