(* C12 - abstract specification of the theory store: a plain table per kind.

   T / E : id -> item (partial), A : the list of atoms in insertion order,
   nT / nE : one past the largest term / element id that was ever defined since the last reset
             ("the range of ids in use"),
   bA / bT / bE : number of atoms and the two id ranges at the last step mark (update()).
   Definitions only.                                                                                 *)
Require Import V.Lib.Base V.Lib.Calls V.Gen.Consts_C12.
Local Open Scope Z_scope.

Inductive aterm := ANum (n : Z) | ASym (b : list Z) | AComp (base : Z) (args : list Z).
Record aelem := mke { e_terms : list Z; e_cond : Z }.
Record aatom := mka { a_atom : Z; a_term : Z; a_elems : list Z; a_guard : option (Z * Z) }.

(* the directive that (re-)creates an item: what Potassco::print emits *)
Definition call_of_term (id : Z) (t : aterm) : call :=
  match t with ANum n => CTNum id n | ASym b => CTSym id b | AComp c a => CTComp id c a end.
Definition call_of_elem (id : Z) (e : aelem) : call := CTElem id (e_terms e) [e_cond e].
Definition call_of_atom (a : aatom) : call :=
  match a_guard a with
  | None => CTAtom (a_atom a) (a_term a) (a_elems a)
  | Some (o, r) => CTAtomG (a_atom a) (a_term a) (a_elems a) o r
  end.

(* public operations (mutators) *)
Inductive op :=
| OAddNum (id n : Z)
| OAddSym (id : Z) (b : list Z)
| OAddComp (id base : Z) (args : list Z)        (* function (base = symbol term id) or tuple (base < 0) *)
| ORemoveTerm (id : Z)
| OAddElem (id : Z) (ts : list Z) (c : Z)
| OSetCond (id c : Z)
| OAddAtom (a t : Z) (es : list Z) (g : option (Z * Z))
| OUpdate
| OReset
| OFilter (p : aatom -> bool).

Record ast := mks { T : Z -> option aterm; nT : Z; E : Z -> option aelem; nE : Z;
                    A : list aatom; bA : Z; bT : Z; bE : Z }.

Definition a_init : ast := mks (fun _ => None) 0 (fun _ => None) 0 [] 0 0 0.

Definition upd {V} (f : Z -> option V) (k : Z) (v : option V) : Z -> option V :=
  fun x => if x =? k then v else f x.
Definition isSome {V} (o : option V) : bool := match o with Some _ => true | None => false end.

Definition s_has_term (a : ast) (id : Z) : bool := isSome (T a id).
Definition s_has_elem (a : ast) (id : Z) : bool := isSome (E a id).
(* new = in use and beyond the range of ids in use at the last mark *)
Definition s_new_term (a : ast) (id : Z) : bool := s_has_term a id && (bT a <=? id).
Definition s_new_elem (a : ast) (id : Z) : bool := s_has_elem a id && (bE a <=? id).

Definition s_add_term (a : ast) (id : Z) (t : aterm) : Z * ast :=
  if s_new_term a id then (EC_REDEF_TERM, a)
  else (0, mks (upd (T a) id (Some t)) (Z.max (nT a) (id + 1)) (E a) (nE a) (A a) (bA a) (bT a) (bE a)).

Definition atom_kept (p : aatom -> bool) (x : aatom) : bool := negb (negb (a_atom x =? 0) && p x).

Definition s_step (a : ast) (o : op) : Z * ast :=
  match o with
  | OAddNum id n => s_add_term a id (ANum n)
  | OAddSym id b => s_add_term a id (ASym b)
  | OAddComp id base args => s_add_term a id (AComp base args)
  | ORemoveTerm id => (0, mks (upd (T a) id None) (nT a) (E a) (nE a) (A a) (bA a) (bT a) (bE a))
  | OAddElem id ts c =>
      if s_new_elem a id then (EC_REDEF_ELEM, a)
      else (0, mks (T a) (nT a) (upd (E a) id (Some (mke ts c))) (Z.max (nE a) (id + 1)) (A a) (bA a) (bT a) (bE a))
  | OSetCond id c =>
      match E a id with
      | None => (EC_UNKNOWN_ELEM, a)
      | Some e => if e_cond e =? COND_DEFERRED
                  then (0, mks (T a) (nT a) (upd (E a) id (Some (mke (e_terms e) c))) (nE a) (A a) (bA a) (bT a) (bE a))
                  else (EC_NOT_DEFERRED, a)
      end
  | OAddAtom at_ t es g => (0, mks (T a) (nT a) (E a) (nE a) (A a ++ [mka at_ t es g]) (bA a) (bT a) (bE a))
  | OUpdate => (0, mks (T a) (nT a) (E a) (nE a) (A a) (Z.of_nat (length (A a))) (nT a) (nE a))
  | OReset => (0, a_init)
  | OFilter p =>
      let k := Z.to_nat (bA a) in
      (0, mks (T a) (nT a) (E a) (nE a) (firstn k (A a) ++ filter (atom_kept p) (skipn k (A a))) (bA a) (bT a) (bE a))
  end.

(* two abstract states are the same table *)
Definition aeq (x y : ast) : Prop :=
  (forall id, T x id = T y id) /\ nT x = nT y /\ (forall id, E x id = E y id) /\ nE x = nE y /\
  A x = A y /\ bA x = bA y /\ bT x = bT y /\ bE x = bE y.

(* ---- what a traversal is supposed to reach ---- *)
(* the references of an item that accept() follows, in order *)
Definition term_refs (t : aterm) : list Z :=
  match t with AComp base args => args ++ (if 0 <=? base then [base] else []) | _ => [] end.
Definition atom_term_refs (x : aatom) : list Z :=
  match a_guard x with None => [] | Some (o, r) => [o; r] end.
