(* C12 - the ledger invariant and its preservation by the primitive transitions. *)
Require Import V.Lib.Base V.Lib.Calls V.Gen.Consts V.Gen.Consts_C12 V.C12.Spec V.C12.Model V.C12.ProofsBase.
Require Import ZifyBool.
Local Open Scope Z_scope.
Ltac Zify.zify_post_hook ::= Z.div_mod_to_equations.
Ltac sproj := cbn [hp terms nterms elems nelems atoms fatom fterm felem twrite set_hp set_terms set_elems set_atoms update] in *.

Definition is_ptr (w : Z) : Prop := wtype w = Theory_t_Symbol \/ wtype w = Theory_t_Compound.

(* a stored word is valid, has one of the three types, and a pointer word points to a live cell of its kind *)
Definition word_ok (h : heap) (w : Z) : Prop :=
  valid w = true /\
  (wtype w = Theory_t_Number \/
   (wtype w = Theory_t_Symbol /\ exists b, hfind h (getPtr w) = Some (OSym b)) \/
   (wtype w = Theory_t_Compound /\ exists b a, hfind h (getPtr w) = Some (OFunc b a))).

(* the slots that own heap cell a *)
Definition owned (s : st) (a : Z) : Prop :=
  (exists id w, aget (terms s) id = Some w /\ is_ptr w /\ getPtr w = a) \/
  (exists id, aget (elems s) id = Some a) \/
  In a (atoms s).

Record Inv (s : st) : Prop := mkInv {
  I_next : 0 < next (hp s) /\ next (hp s) mod ALIGN = 0;
  I_cells : forall a o, hfind (hp s) a = Some o -> 0 < a < next (hp s);
  I_ckeys : NoDup (map fst (cells (hp s)));
  I_tkeys : NoDup (map fst (terms s));
  I_tdom : forall id w, aget (terms s) id = Some w -> 0 <= id < nterms s /\ word_ok (hp s) w;
  I_tinj : forall i j wi wj, aget (terms s) i = Some wi -> aget (terms s) j = Some wj ->
             is_ptr wi -> is_ptr wj -> getPtr wi = getPtr wj -> i = j;
  I_ekeys : NoDup (map fst (elems s));
  I_edom : forall id p, aget (elems s) id = Some p ->
             0 <= id < nelems s /\ exists ts c, hfind (hp s) p = Some (OElem ts c);
  I_einj : forall i j p, aget (elems s) i = Some p -> aget (elems s) j = Some p -> i = j;
  I_adom : forall p, In p (atoms s) -> exists a t es g, hfind (hp s) p = Some (OAtom a t es g);
  I_anodup : NoDup (atoms s);
  I_owned : forall a o, hfind (hp s) a = Some o -> owned s a;
  I_frame : 0 <= fatom s <= numAtoms s
}.

Lemma Inv_init : Inv init.
Proof.
  constructor; simpl; try (intros; discriminate); try (intros; contradiction); try constructor;
    unfold ALIGN, numAtoms; simpl; try lia.
Qed.

(* ---------- basic consequences ---------- *)
Lemma is_ptr_dec w : {is_ptr w} + {~ is_ptr w}.
Proof.
  unfold is_ptr. destruct (Z.eq_dec (wtype w) Theory_t_Symbol); [left; tauto|].
  destruct (Z.eq_dec (wtype w) Theory_t_Compound); [left; tauto|right; tauto].
Qed.

Lemma word_ok_ptr_live h w : word_ok h w -> is_ptr w -> exists o, hfind h (getPtr w) = Some o /\ (kind o = K_SYM \/ kind o = K_FUNC).
Proof.
  intros [_ [H|[[H [b Hb]]|[H [b [a Hb]]]]]] [P|P];
    try (unfold Theory_t_Number, Theory_t_Symbol, Theory_t_Compound in *; lia);
    eexists; (split; [eassumption|]); simpl; unfold K_SYM, K_FUNC; auto.
Qed.

Lemma key_live h a : In a (map fst (cells h)) -> exists o, hfind h a = Some o.
Proof.
  intro H. unfold hfind. destruct (aget (cells h) a) eqn:E; [eauto|].
  apply aget_None in E. contradiction.
Qed.

Lemma next_fresh s : Inv s -> hfind (hp s) (next (hp s)) = None.
Proof.
  intro I. destruct (hfind (hp s) (next (hp s))) eqn:E; [|reflexivity].
  apply (I_cells s I) in E. lia.
Qed.

Lemma hasTerm_iff s id : Inv s -> (hasTerm s id = true <-> exists w, aget (terms s) id = Some w).
Proof.
  intro I. unfold hasTerm, tread. split.
  - intro H. apply andb_true_iff in H. destruct H as [_ H].
    destruct (aget (terms s) id) as [w|]; [eauto|]. unfold valid in H. rewrite Z.eqb_refl in H. discriminate.
  - intros [w H]. rewrite H. destruct (I_tdom s I _ _ H) as [R [Vw _]].
    apply andb_true_iff. split; [lia|exact Vw].
Qed.

Lemma hasTerm_false s id : Inv s -> hasTerm s id = false -> aget (terms s) id = None.
Proof.
  intros I H. destruct (aget (terms s) id) as [w|] eqn:E; [|reflexivity].
  assert (hasTerm s id = true) by (apply hasTerm_iff; eauto). congruence.
Qed.

Lemma hasElement_iff s id : Inv s -> (hasElement s id = true <-> exists p, aget (elems s) id = Some p).
Proof.
  intro I. unfold hasElement, eread. split.
  - intro H. apply andb_true_iff in H. destruct H as [_ H].
    destruct (aget (elems s) id) as [p|]; [eauto|]. simpl in H. discriminate.
  - intros [p H]. rewrite H. destruct (I_edom s I _ _ H) as [R [ts [c Hp]]].
    apply (I_cells s I) in Hp. apply andb_true_iff. split; lia.
Qed.

Lemma hasElement_false s id : Inv s -> hasElement s id = false -> aget (elems s) id = None.
Proof.
  intros I H. destruct (aget (elems s) id) as [w|] eqn:E; [|reflexivity].
  assert (hasElement s id = true) by (apply hasElement_iff; eauto). congruence.
Qed.

(* cells of different kinds are different cells *)
Lemma term_elem_disjoint s i w j p :
  Inv s -> aget (terms s) i = Some w -> is_ptr w -> aget (elems s) j = Some p -> getPtr w <> p.
Proof.
  intros I Hw P Hp E. destruct (I_tdom s I _ _ Hw) as [_ Ok].
  destruct (word_ok_ptr_live _ _ Ok P) as [o [Ho K]].
  destruct (I_edom s I _ _ Hp) as [_ [ts [c Hc]]]. rewrite E in Ho. rewrite Hc in Ho.
  inversion Ho; subst. simpl in K. unfold K_ELEM, K_SYM, K_FUNC in K. lia.
Qed.
Lemma term_atom_disjoint s i w p :
  Inv s -> aget (terms s) i = Some w -> is_ptr w -> In p (atoms s) -> getPtr w <> p.
Proof.
  intros I Hw P Hp E. destruct (I_tdom s I _ _ Hw) as [_ Ok].
  destruct (word_ok_ptr_live _ _ Ok P) as [o [Ho K]].
  destruct (I_adom s I _ Hp) as [a [t [es [g Hc]]]]. rewrite E in Ho. rewrite Hc in Ho.
  inversion Ho; subst. simpl in K. unfold K_ATOM, K_SYM, K_FUNC in K. lia.
Qed.
Lemma elem_atom_disjoint s j p q :
  Inv s -> aget (elems s) j = Some p -> In q (atoms s) -> p <> q.
Proof.
  intros I Hp Hq E. destruct (I_edom s I _ _ Hp) as [_ [ts [c Hc]]].
  destruct (I_adom s I _ Hq) as [a [t [es [g Ha]]]]. subst. rewrite Hc in Ha. discriminate.
Qed.

(* word_ok is stable under heap changes that keep the word's cell *)
Lemma word_ok_frame h h' w :
  word_ok h w -> (is_ptr w -> hfind h' (getPtr w) = hfind h (getPtr w)) -> word_ok h' w.
Proof.
  intros [V H] F. split; [exact V|].
  destruct H as [H|[[H [b Hb]]|[H [b [a Hb]]]]].
  - now left.
  - right; left. split; [exact H|]. exists b. rewrite F; [exact Hb|left; exact H].
  - right; right. split; [exact H|]. exists b, a. rewrite F; [exact Hb|right; exact H].
Qed.

(* ---------- primitive transitions ---------- *)
Lemma P_grow_t s n : Inv s -> nterms s <= n -> Inv (set_terms s (terms s) n).
Proof.
  intros I Hn. destruct I. constructor; simpl; auto.
  intros id w H. destruct (I_tdom0 _ _ H). split; [lia|assumption].
Qed.

Lemma P_grow_e s n : Inv s -> nelems s <= n -> Inv (set_elems s (elems s) n).
Proof.
  intros I Hn. destruct I. constructor; simpl; auto.
  intros id w H. destruct (I_edom0 _ _ H). split; [lia|assumption].
Qed.

Lemma P_update s : Inv s -> Inv (update s).
Proof.
  intros I. destruct I. constructor; simpl; auto. unfold numAtoms. simpl. lia.
Qed.

(* the heap only advanced its fresh-address counter *)
Lemma P_bump s : Inv s -> Inv (set_hp s (mkh (cells (hp s)) (next (hp s) + ALIGN))).
Proof.
  intros I. destruct I. constructor; simpl; auto.
  - unfold ALIGN in *. lia.
  - intros a o H. apply I_cells0 in H. unfold ALIGN. lia.
Qed.

(* removing a stored term: its cell (if it is a pointer word) is freed *)
Lemma destroy_word_spec s id w :
  Inv s -> aget (terms s) id = Some w ->
  exists h, destroy_word w (hp s) = Ok h /\ next h = next (hp s) /\
    (forall b, hfind h b = if (if is_ptr_dec w then getPtr w =? b else false) then None else hfind (hp s) b) /\
    cells h = (if is_ptr_dec w then adel (cells (hp s)) (getPtr w) else cells (hp s)).
Proof.
  intros I H. destruct (I_tdom s I _ _ H) as [_ [V Ty]]. unfold destroy_word. rewrite V.
  destruct (is_ptr_dec w) as [P|P].
  - destruct Ty as [T|[[T [b Hb]]|[T [b [a Hb]]]]].
    + exfalso. destruct P as [P|P]; unfold Theory_t_Number, Theory_t_Symbol, Theory_t_Compound in *; lia.
    + rewrite T. change (Theory_t_Symbol =? Theory_t_Compound) with false. change (Theory_t_Symbol =? Theory_t_Symbol) with true. simpl.
      destruct (hfree_ok K_SYM _ _ _ Hb eq_refl) as [h' Hf]. exists h'. split; [exact Hf|].
      apply hfree_spec in Hf. destruct Hf as [_ [N [C F]]]. auto.
    + rewrite T. change (Theory_t_Compound =? Theory_t_Compound) with true. simpl.
      destruct (hfree_ok K_FUNC _ _ _ Hb eq_refl) as [h' Hf]. exists h'. split; [exact Hf|].
      apply hfree_spec in Hf. destruct Hf as [_ [N [C F]]]. auto.
  - assert (T : wtype w = Theory_t_Number).
    { destruct Ty as [T|[[T _]|[T _]]]; [exact T|exfalso; apply P; left; exact T|exfalso; apply P; right; exact T]. }
    rewrite T. change (Theory_t_Number =? Theory_t_Compound) with false. change (Theory_t_Number =? Theory_t_Symbol) with false.
    exists (hp s). auto.
Qed.

Lemma owned_terms_adel s s' id w a :
  Inv s -> aget (terms s) id = Some w ->
  terms s' = adel (terms s) id -> elems s' = elems s -> atoms s' = atoms s ->
  owned s a -> (is_ptr w -> getPtr w <> a) -> owned s' a.
Proof.
  intros I H Et Ee Ea [[j [wj [Hj [Pj Gj]]]]|[[j Hj]|Hj]] Na.
  - left. exists j, wj. rewrite Et, aget_adel. destruct (Z.eqb_spec id j) as [E|E]; [|auto].
    subst j. rewrite H in Hj. inversion Hj; subst wj. exfalso. now apply Na.
  - right; left. exists j. now rewrite Ee.
  - right; right. now rewrite Ea.
Qed.

Lemma P_rm_t s id w :
  Inv s -> aget (terms s) id = Some w ->
  exists h, destroy_word w (hp s) = Ok h /\ next h = next (hp s) /\
    (forall b, hfind h b = if (if is_ptr_dec w then getPtr w =? b else false) then None else hfind (hp s) b) /\
    Inv (set_hp (set_terms s (adel (terms s) id) (nterms s)) h).
Proof.
  intros I H. destruct (destroy_word_spec s id w I H) as [h [D [N [F C]]]].
  exists h. split; [exact D|]. split; [exact N|]. split; [exact F|].
  assert (Keep : forall j wj, j <> id -> aget (terms s) j = Some wj -> is_ptr wj -> hfind h (getPtr wj) = hfind (hp s) (getPtr wj)).
  { intros j wj Nj Hj Pj. rewrite F. destruct (is_ptr_dec w) as [P|P]; [|reflexivity].
    destruct (Z.eqb_spec (getPtr w) (getPtr wj)) as [E|E]; [|reflexivity].
    exfalso. apply Nj. symmetry. eapply (I_tinj s I id j w wj); eauto. }
  constructor; simpl.
  - rewrite N. apply (I_next s I).
  - intros a o Ha. rewrite F in Ha. rewrite N.
    destruct (if is_ptr_dec w then getPtr w =? a else false); [discriminate|]. now apply (I_cells s I) in Ha.
  - rewrite C. destruct (is_ptr_dec w); [apply NoDup_adel|]; apply (I_ckeys s I).
  - apply NoDup_adel, (I_tkeys s I).
  - intros j wj Hj. rewrite aget_adel in Hj. destruct (Z.eqb_spec id j) as [E|E]; [discriminate|].
    destruct (I_tdom s I _ _ Hj) as [R Ok]. split; [exact R|].
    eapply word_ok_frame; [exact Ok|]. intro Pj. eapply Keep; eauto.
  - intros i j wi wj Hi Hj. rewrite aget_adel in Hi, Hj.
    destruct (id =? i); [discriminate|]. destruct (id =? j); [discriminate|]. now apply (I_tinj s I).
  - apply (I_ekeys s I).
  - intros j p Hj. destruct (I_edom s I _ _ Hj) as [R [ts [c Hp]]]. split; [exact R|]. exists ts, c.
    rewrite F. destruct (is_ptr_dec w) as [P|P]; [|exact Hp].
    destruct (Z.eqb_spec (getPtr w) p) as [E|E]; [|exact Hp].
    exfalso. eapply term_elem_disjoint; eauto.
  - apply (I_einj s I).
  - intros p Hp. destruct (I_adom s I _ Hp) as [a [t [es [g Ha]]]]. exists a, t, es, g.
    rewrite F. destruct (is_ptr_dec w) as [P|P]; [|exact Ha].
    destruct (Z.eqb_spec (getPtr w) p) as [E|E]; [|exact Ha].
    exfalso. eapply term_atom_disjoint; eauto.
  - apply (I_anodup s I).
  - intros a o Ha. rewrite F in Ha.
    destruct (is_ptr_dec w) as [P|P].
    + destruct (Z.eqb_spec (getPtr w) a) as [E|E]; [discriminate|].
      eapply owned_terms_adel with (s := s); eauto. eapply (I_owned s I); eauto.
    + eapply owned_terms_adel with (s := s); eauto. eapply (I_owned s I); eauto.
  - apply (I_frame s I).
Qed.

(* ---------- storing into an empty term slot ---------- *)
Lemma live_ne_next s a o : Inv s -> hfind (hp s) a = Some o -> next (hp s) =? a = false.
Proof. intros I H. apply (I_cells s I) in H. lia. Qed.

Lemma owned_terms_aset s s' id w a :
  aget (terms s) id = None ->
  terms s' = aset (terms s) id w -> elems s' = elems s -> atoms s' = atoms s ->
  owned s a -> owned s' a.
Proof.
  intros H Et Ee Ea [[j [wj [Hj [Pj Gj]]]]|[[j Hj]|Hj]].
  - left. exists j, wj. rewrite Et, aget_aset. destruct (Z.eqb_spec id j) as [E|E]; [|auto].
    subst j. congruence.
  - right; left. exists j. now rewrite Ee.
  - right; right. now rewrite Ea.
Qed.

Lemma not_ptr_num n : ~ is_ptr (mk_num n).
Proof. unfold is_ptr. rewrite wtype_mk_num. unfold Theory_t_Number, Theory_t_Symbol, Theory_t_Compound. lia. Qed.

Lemma P_put_num s id n :
  Inv s -> aget (terms s) id = None -> 0 <= id < nterms s -> Inv (twrite s id (mk_num n)).
Proof.
  intros I H R. constructor; sproj.
  - apply (I_next s I).
  - apply (I_cells s I).
  - apply (I_ckeys s I).
  - apply (NoDup_aset (terms s) id (mk_num n)). apply (I_tkeys s I).
  - intros j wj Hj. rewrite aget_aset in Hj. destruct (Z.eqb_spec id j) as [E|E].
    + inversion Hj; subst. split; [exact R|]. split; [apply valid_mk_num|left; apply wtype_mk_num].
    + now apply (I_tdom s I).
  - intros i j wi wj Hi Hj Pi Pj. rewrite aget_aset in Hi, Hj.
    destruct (Z.eqb_spec id i) as [Ei|Ei]; [inversion Hi; subst; exfalso; eapply not_ptr_num; eauto|].
    destruct (Z.eqb_spec id j) as [Ej|Ej]; [inversion Hj; subst; exfalso; eapply not_ptr_num; eauto|].
    now apply (I_tinj s I).
  - apply (I_ekeys s I).
  - apply (I_edom s I).
  - apply (I_einj s I).
  - apply (I_adom s I).
  - apply (I_anodup s I).
  - intros a o Ha. apply (owned_terms_aset s _ id (mk_num n) a H); [reflexivity|reflexivity|reflexivity|].
    eapply (I_owned s I); eauto.
  - apply (I_frame s I).
Qed.

Lemma P_put_ptr s id o tag :
  Inv s -> aget (terms s) id = None -> 0 <= id < nterms s ->
  (tag = Theory_t_Symbol /\ (exists b, o = OSym b)) \/ (tag = Theory_t_Compound /\ exists b a, o = OFunc b a) ->
  Inv (twrite (set_hp s (snd (halloc o (hp s)))) id (next (hp s) + tag)).
Proof.
  intros I H R K. set (a0 := next (hp s)).
  destruct (I_next s I) as [Npos Nal].
  assert (Tag : 0 < tag < 3) by (destruct K as [[K _]|[K _]]; subst; unfold Theory_t_Symbol, Theory_t_Compound; lia).
  assert (Wt : wtype (a0 + tag) = tag) by (apply wtype_ptr; [exact Nal|lia]).
  assert (Gp : getPtr (a0 + tag) = a0) by (apply getPtr_ptr; [exact Nal|lia]).
  assert (Old : forall b ob, hfind (hp s) b = Some ob -> hfind (snd (halloc o (hp s))) b = Some ob).
  { intros b ob Hb. rewrite hfind_alloc. rewrite (live_ne_next s b ob I Hb). exact Hb. }
  constructor; sproj; try rewrite !next_alloc.
  - unfold ALIGN in *. fold a0. lia.
  - intros a oa Ha. rewrite hfind_alloc in Ha. fold a0 in Ha. destruct (Z.eqb_spec a0 a) as [E|E].
    + subst a. unfold ALIGN. fold a0. lia.
    + apply (I_cells s I) in Ha. fold a0 in Ha. unfold ALIGN. fold a0. lia.
  - simpl. constructor; [|apply (I_ckeys s I)]. intro Hin. apply key_live in Hin. destruct Hin as [ox Hx].
    apply (I_cells s I) in Hx. lia.
  - apply (NoDup_aset (terms s) id (next (hp s) + tag)); apply (I_tkeys s I).
  - intros j wj Hj. rewrite aget_aset in Hj. destruct (Z.eqb_spec id j) as [E|E].
    + inversion Hj; subst wj j. split; [exact R|]. split; [apply valid_ptr; [exact Nal|lia]|].
      rewrite Wt, Gp. rewrite hfind_alloc. fold a0. rewrite Z.eqb_refl.
      destruct K as [[K [b Eo]]|[K [b [a Eo]]]]; subst; [right; left|right; right]; (split; [reflexivity|eauto]).
    + destruct (I_tdom s I _ _ Hj) as [Rj Okj]. split; [exact Rj|].
      eapply word_ok_frame; [exact Okj|]. intro Pj.
      destruct (word_ok_ptr_live _ _ Okj Pj) as [oj [Hoj _]]. rewrite Hoj. now apply Old.
  - intros i j wi wj Hi Hj Pi Pj G. rewrite aget_aset in Hi, Hj.
    destruct (Z.eqb_spec id i) as [Ei|Ei]; destruct (Z.eqb_spec id j) as [Ej|Ej]; try lia.
    + inversion Hi; subst wi. rewrite Gp in G. destruct (I_tdom s I _ _ Hj) as [_ Okj].
      destruct (word_ok_ptr_live _ _ Okj Pj) as [oj [Hoj _]]. apply (I_cells s I) in Hoj. fold a0 in Hoj. lia.
    + inversion Hj; subst wj. rewrite Gp in G. destruct (I_tdom s I _ _ Hi) as [_ Oki].
      destruct (word_ok_ptr_live _ _ Oki Pi) as [oi [Hoi _]]. apply (I_cells s I) in Hoi. fold a0 in Hoi. lia.
    + now apply (I_tinj s I i j wi wj).
  - apply (I_ekeys s I).
  - intros j p Hj. destruct (I_edom s I _ _ Hj) as [Rj [ts [c Hp]]]. split; [exact Rj|]. exists ts, c. now apply Old.
  - apply (I_einj s I).
  - intros p Hp. destruct (I_adom s I _ Hp) as [a [t [es [g Ha]]]]. exists a, t, es, g. now apply Old.
  - apply (I_anodup s I).
  - intros a oa Ha. rewrite hfind_alloc in Ha. fold a0 in Ha. destruct (Z.eqb_spec a0 a) as [E|E].
    + left. exists id, (a0 + tag). sproj. rewrite aget_aset, Z.eqb_refl. split; [reflexivity|]. split; [|congruence].
      unfold is_ptr. rewrite Wt. destruct K as [[K _]|[K _]]; auto.
    + apply (owned_terms_aset s _ id (a0 + tag) a H); [reflexivity|reflexivity|reflexivity|]. eapply (I_owned s I); eauto.
  - apply (I_frame s I).
Qed.

(* ---------- elements ---------- *)
Lemma P_rm_e s id p :
  Inv s -> aget (elems s) id = Some p ->
  exists h, hfree K_ELEM p (hp s) = Ok h /\ next h = next (hp s) /\
    (forall b, hfind h b = if p =? b then None else hfind (hp s) b) /\
    Inv (set_hp (set_elems s (adel (elems s) id) (nelems s)) h).
Proof.
  intros I H. destruct (I_edom s I _ _ H) as [R [ts [c Hp]]].
  destruct (hfree_ok K_ELEM _ _ _ Hp eq_refl) as [h Hf]. exists h. split; [exact Hf|].
  apply hfree_spec in Hf. destruct Hf as [_ [N [C F]]]. split; [exact N|]. split; [exact F|].
  constructor; sproj.
  - rewrite N. apply (I_next s I).
  - intros a o Ha. rewrite F in Ha. rewrite N. destruct (p =? a); [discriminate|]. now apply (I_cells s I) in Ha.
  - rewrite C. apply NoDup_adel, (I_ckeys s I).
  - apply (I_tkeys s I).
  - intros j wj Hj. destruct (I_tdom s I _ _ Hj) as [Rj Okj]. split; [exact Rj|].
    eapply word_ok_frame; [exact Okj|]. intro Pj. rewrite F.
    destruct (Z.eqb_spec p (getPtr wj)) as [E|E]; [|reflexivity].
    exfalso. eapply term_elem_disjoint; eauto.
  - apply (I_tinj s I).
  - apply NoDup_adel, (I_ekeys s I).
  - intros j q Hj. rewrite aget_adel in Hj. destruct (Z.eqb_spec id j) as [E|E]; [discriminate|].
    destruct (I_edom s I _ _ Hj) as [Rj [ts' [c' Hq]]]. split; [exact Rj|]. exists ts', c'. rewrite F.
    destruct (Z.eqb_spec p q) as [E'|E']; [|exact Hq]. subst q. exfalso. apply E. eapply (I_einj s I); eauto.
  - intros i j q Hi Hj. rewrite aget_adel in Hi, Hj.
    destruct (id =? i); [discriminate|]. destruct (id =? j); [discriminate|]. eapply (I_einj s I); eauto.
  - intros q Hq. destruct (I_adom s I _ Hq) as [a [t [es [g Ha]]]]. exists a, t, es, g. rewrite F.
    destruct (Z.eqb_spec p q) as [E|E]; [|exact Ha]. exfalso. eapply elem_atom_disjoint; eauto.
  - apply (I_anodup s I).
  - intros a o Ha. rewrite F in Ha. destruct (Z.eqb_spec p a) as [E|E]; [discriminate|].
    destruct (I_owned s I _ _ Ha) as [[j [wj [Hj [Pj Gj]]]]|[[j Hj]|Hj]].
    + left. exists j, wj. auto.
    + right; left. exists j. sproj. rewrite aget_adel. destruct (Z.eqb_spec id j) as [E'|E']; [|exact Hj].
      subst j. congruence.
    + right; right. exact Hj.
  - apply (I_frame s I).
Qed.

Lemma P_put_e s id ts c :
  Inv s -> aget (elems s) id = None -> 0 <= id < nelems s ->
  Inv (set_hp (set_elems s (aset (elems s) id (next (hp s))) (nelems s)) (snd (halloc (OElem ts c) (hp s)))).
Proof.
  intros I H R. set (a0 := next (hp s)). set (o := OElem ts c).
  destruct (I_next s I) as [Npos Nal].
  assert (Old : forall b ob, hfind (hp s) b = Some ob -> hfind (snd (halloc o (hp s))) b = Some ob).
  { intros b ob Hb. rewrite hfind_alloc. rewrite (live_ne_next s b ob I Hb). exact Hb. }
  constructor; sproj; try rewrite !next_alloc.
  - unfold ALIGN in *. fold a0. lia.
  - intros a oa Ha. rewrite hfind_alloc in Ha. fold a0 in Ha. destruct (Z.eqb_spec a0 a) as [E|E].
    + subst a. unfold ALIGN. fold a0. lia.
    + apply (I_cells s I) in Ha. fold a0 in Ha. unfold ALIGN. fold a0. lia.
  - simpl. constructor; [|apply (I_ckeys s I)]. intro Hin. apply key_live in Hin. destruct Hin as [ox Hx].
    apply (I_cells s I) in Hx. lia.
  - apply (I_tkeys s I).
  - intros j wj Hj. destruct (I_tdom s I _ _ Hj) as [Rj Okj]. split; [exact Rj|].
    eapply word_ok_frame; [exact Okj|]. intro Pj.
    destruct (word_ok_ptr_live _ _ Okj Pj) as [oj [Hoj _]]. rewrite Hoj. now apply Old.
  - apply (I_tinj s I).
  - apply (NoDup_aset (elems s) id (next (hp s))); apply (I_ekeys s I).
  - intros j p Hj. rewrite aget_aset in Hj. destruct (Z.eqb_spec id j) as [E|E].
    + inversion Hj; subst. split; [exact R|]. exists ts, c. rewrite hfind_alloc. now rewrite Z.eqb_refl.
    + destruct (I_edom s I _ _ Hj) as [Rj [ts' [c' Hp]]]. split; [exact Rj|]. exists ts', c'. now apply Old.
  - intros i j p Hi Hj. rewrite aget_aset in Hi, Hj.
    destruct (Z.eqb_spec id i) as [Ei|Ei]; destruct (Z.eqb_spec id j) as [Ej|Ej]; try lia.
    + inversion Hi; subst p. destruct (I_edom s I _ _ Hj) as [_ [ts' [c' Hp]]]. apply (I_cells s I) in Hp. lia.
    + inversion Hj; subst p. destruct (I_edom s I _ _ Hi) as [_ [ts' [c' Hp]]]. apply (I_cells s I) in Hp. lia.
    + eapply (I_einj s I); eauto.
  - intros p Hp. destruct (I_adom s I _ Hp) as [a [t [es [g Ha]]]]. exists a, t, es, g. now apply Old.
  - apply (I_anodup s I).
  - intros a oa Ha. rewrite hfind_alloc in Ha. fold a0 in Ha. destruct (Z.eqb_spec a0 a) as [E|E].
    + right; left. exists id. sproj. rewrite aget_aset, Z.eqb_refl. congruence.
    + destruct (I_owned s I _ _ Ha) as [[j [wj [Hj [Pj Gj]]]]|[[j Hj]|Hj]].
      * left. exists j, wj. auto.
      * right; left. exists j. sproj. rewrite aget_aset. destruct (Z.eqb_spec id j) as [E'|E']; [subst; congruence|exact Hj].
      * right; right. exact Hj.
  - apply (I_frame s I).
Qed.

Lemma P_setcond s id p ts c c' :
  Inv s -> aget (elems s) id = Some p -> hfind (hp s) p = Some (OElem ts c) ->
  Inv (set_hp s (hwrite p (OElem ts c') (hp s))).
Proof.
  intros I H Hp.
  constructor; sproj.
  - apply (I_next s I).
  - intros a o Ha. rewrite hfind_write in Ha. destruct (Z.eqb_spec p a) as [E|E].
    + subst a. now apply (I_cells s I) in Hp.
    + now apply (I_cells s I) in Ha.
  - apply (NoDup_aset (cells (hp s)) p (OElem ts c')); apply (I_ckeys s I).
  - apply (I_tkeys s I).
  - intros j wj Hj. destruct (I_tdom s I _ _ Hj) as [Rj Okj]. split; [exact Rj|].
    eapply word_ok_frame; [exact Okj|]. intro Pj. rewrite hfind_write.
    destruct (Z.eqb_spec p (getPtr wj)) as [E|E]; [|reflexivity].
    exfalso. eapply term_elem_disjoint; eauto.
  - apply (I_tinj s I).
  - apply (I_ekeys s I).
  - intros j q Hj. destruct (I_edom s I _ _ Hj) as [Rj [ts' [c'' Hq]]]. split; [exact Rj|].
    rewrite hfind_write. destruct (Z.eqb_spec p q) as [E|E]; eauto.
  - apply (I_einj s I).
  - intros q Hq. destruct (I_adom s I _ Hq) as [a [t [es [g Ha]]]]. exists a, t, es, g. rewrite hfind_write.
    destruct (Z.eqb_spec p q) as [E|E]; [|exact Ha]. exfalso. eapply elem_atom_disjoint; eauto.
  - apply (I_anodup s I).
  - intros a o Ha. rewrite hfind_write in Ha. destruct (Z.eqb_spec p a) as [E|E].
    + subst a. right; left. exists id. exact H.
    + destruct (I_owned s I _ _ Ha) as [?|[?|?]]; [left|right; left|right; right]; auto.
  - apply (I_frame s I).
Qed.

Lemma NoDup_app_single {X} (l : list X) (x : X) : NoDup l -> ~ In x l -> NoDup (l ++ [x]).
Proof.
  induction l as [|y l IH]; simpl; intros ND Hn.
  - constructor; [tauto|constructor].
  - inversion ND; subst. constructor.
    + intro H. apply in_app_or in H. destruct H as [H|[H|[]]]; [contradiction|]. subst. apply Hn. now left.
    + apply IH; [assumption|]. intro H. apply Hn. now right.
Qed.

(* ---------- atoms ---------- *)
Lemma P_add_atom s a t es g :
  Inv s -> Inv (set_hp (set_atoms s (atoms s ++ [next (hp s)])) (snd (halloc (OAtom a t es g) (hp s)))).
Proof.
  intros I. set (a0 := next (hp s)). set (o := OAtom a t es g).
  destruct (I_next s I) as [Npos Nal].
  assert (Old : forall b ob, hfind (hp s) b = Some ob -> hfind (snd (halloc o (hp s))) b = Some ob).
  { intros b ob Hb. rewrite hfind_alloc. rewrite (live_ne_next s b ob I Hb). exact Hb. }
  constructor; sproj; try rewrite !next_alloc.
  - unfold ALIGN in *. fold a0. lia.
  - intros b ob Hb. rewrite hfind_alloc in Hb. fold a0 in Hb. destruct (Z.eqb_spec a0 b) as [E|E].
    + subst b. unfold ALIGN. fold a0. lia.
    + apply (I_cells s I) in Hb. fold a0 in Hb. unfold ALIGN. fold a0. lia.
  - simpl. constructor; [|apply (I_ckeys s I)]. intro Hin. apply key_live in Hin. destruct Hin as [ox Hx].
    apply (I_cells s I) in Hx. lia.
  - apply (I_tkeys s I).
  - intros j wj Hj. destruct (I_tdom s I _ _ Hj) as [Rj Okj]. split; [exact Rj|].
    eapply word_ok_frame; [exact Okj|]. intro Pj.
    destruct (word_ok_ptr_live _ _ Okj Pj) as [oj [Hoj _]]. rewrite Hoj. now apply Old.
  - apply (I_tinj s I).
  - apply (I_ekeys s I).
  - intros j p Hj. destruct (I_edom s I _ _ Hj) as [Rj [ts' [c' Hp]]]. split; [exact Rj|]. exists ts', c'. now apply Old.
  - apply (I_einj s I).
  - intros p Hp. apply in_app_or in Hp. destruct Hp as [Hp|[Hp|[]]].
    + destruct (I_adom s I _ Hp) as [a' [t' [es' [g' Ha]]]]. exists a', t', es', g'. now apply Old.
    + subst p. exists a, t, es, g. rewrite hfind_alloc. now rewrite Z.eqb_refl.
  - apply NoDup_app_single. apply (I_anodup s I). intro Hin.
    destruct (I_adom s I _ Hin) as [a' [t' [es' [g' Ha]]]]. apply (I_cells s I) in Ha. lia.
  - intros b ob Hb. rewrite hfind_alloc in Hb. fold a0 in Hb. destruct (Z.eqb_spec a0 b) as [E|E].
    + right; right. sproj. apply in_or_app. right. left. exact E.
    + destruct (I_owned s I _ _ Hb) as [?|[?|?]]; [left|right; left|right; right]; auto.
      sproj. apply in_or_app. now left.
  - unfold numAtoms. simpl. rewrite app_length. simpl. pose proof (I_frame s I) as F. unfold numAtoms in F. lia.
Qed.

(* ---------- freeing many cells: reset() and filter() ---------- *)
Lemma destroy_word_ok h w :
  word_ok h w ->
  exists h', destroy_word w h = Ok h' /\ next h' = next h /\
    (forall b, hfind h' b = if (if is_ptr_dec w then getPtr w =? b else false) then None else hfind h b) /\
    (NoDup (map fst (cells h)) -> NoDup (map fst (cells h'))).
Proof.
  intros [V Ty]. unfold destroy_word. rewrite V.
  destruct (is_ptr_dec w) as [P|P].
  - destruct Ty as [T|[[T [b Hb]]|[T [b [a Hb]]]]].
    + exfalso. destruct P as [P|P]; unfold Theory_t_Number, Theory_t_Symbol, Theory_t_Compound in *; lia.
    + rewrite T. change (Theory_t_Symbol =? Theory_t_Compound) with false. change (Theory_t_Symbol =? Theory_t_Symbol) with true. simpl.
      destruct (hfree_ok K_SYM _ _ _ Hb eq_refl) as [h' Hf]. exists h'. split; [exact Hf|].
      apply hfree_spec in Hf. destruct Hf as [_ [N [C F]]]. repeat split; auto. rewrite C. apply NoDup_adel.
    + rewrite T. change (Theory_t_Compound =? Theory_t_Compound) with true. simpl.
      destruct (hfree_ok K_FUNC _ _ _ Hb eq_refl) as [h' Hf]. exists h'. split; [exact Hf|].
      apply hfree_spec in Hf. destruct Hf as [_ [N [C F]]]. repeat split; auto. rewrite C. apply NoDup_adel.
  - assert (T : wtype w = Theory_t_Number).
    { destruct Ty as [T|[[T _]|[T _]]]; [exact T|exfalso; apply P; left; exact T|exfalso; apply P; right; exact T]. }
    rewrite T. change (Theory_t_Number =? Theory_t_Compound) with false. change (Theory_t_Number =? Theory_t_Symbol) with false.
    exists h. auto.
Qed.

Definition wptr (w : Z) : list Z := if is_ptr_dec w then [getPtr w] else [].
Definition ptrs (l : list (Z * Z)) : list Z := flat_map (fun e => wptr (snd e)) l.

Lemma ptrs_In l b : In b (ptrs l) <-> exists id w, In (id, w) l /\ is_ptr w /\ getPtr w = b.
Proof.
  unfold ptrs. rewrite in_flat_map. split.
  - intros [[id w] [H1 H2]]. simpl in H2. unfold wptr in H2. destruct (is_ptr_dec w) as [P|P]; [|contradiction].
    destruct H2 as [H2|[]]. exists id, w. auto.
  - intros [id [w [H1 [P G]]]]. exists (id, w). split; [exact H1|]. simpl. unfold wptr.
    destruct (is_ptr_dec w); [left; exact G|contradiction].
Qed.

Lemma NoDup_app_inv {X} (l1 l2 : list X) : NoDup (l1 ++ l2) -> NoDup l1 /\ NoDup l2 /\ (forall x, In x l1 -> ~ In x l2).
Proof.
  induction l1 as [|y l1 IH]; simpl; intro H.
  - split; [constructor|]. split; [exact H|]. tauto.
  - inversion H as [|? ? Hn ND]; subst. destruct (IH ND) as [A [B C]]. split; [|split; [exact B|]].
    + constructor; [|exact A]. intro Hy. apply Hn. apply in_or_app. now left.
    + intros x [Hx|Hx]; [subst; intro Hx; apply Hn; apply in_or_app; now right|now apply C].
Qed.

Lemma NoDup_ptrs l :
  NoDup (map fst l) ->
  (forall i j wi wj, In (i, wi) l -> In (j, wj) l -> is_ptr wi -> is_ptr wj -> getPtr wi = getPtr wj -> i = j) ->
  NoDup (ptrs l).
Proof.
  induction l as [|[id w] l IH]; simpl; intros ND Inj; [constructor|].
  inversion ND as [|? ? Hn ND']; subst.
  assert (IHl : NoDup (ptrs l)) by (apply IH; [exact ND'|]; intros; eapply Inj; eauto).
  unfold wptr. destruct (is_ptr_dec w) as [P|P]; [|exact IHl]. simpl. constructor; [|exact IHl].
  intro Hin. apply ptrs_In in Hin. destruct Hin as [j [wj [Hj [Pj Gj]]]].
  assert (id = j) by (eapply Inj; eauto; now left). subst j.
  apply Hn. change id with (fst (id, wj)). now apply in_map.
Qed.

Lemma destroy_words_ok : forall l h,
  (forall e, In e l -> word_ok h (snd e)) -> NoDup (ptrs l) ->
  exists h', destroy_words l h = Ok h' /\ next h' = next h /\
    (forall b, In b (ptrs l) -> hfind h' b = None) /\ (forall b, ~ In b (ptrs l) -> hfind h' b = hfind h b).
Proof.
  induction l as [|[id w] l IH]; simpl; intros h Hok ND.
  - exists h. repeat split; auto. tauto.
  - destruct (destroy_word_ok h w (Hok (id, w) (or_introl eq_refl))) as [h1 [D [N [F _]]]].
    rewrite D. apply NoDup_app_inv in ND. destruct ND as [ND1 [ND2 Dis]].
    assert (Ok1 : forall e, In e l -> word_ok h1 (snd e)).
    { intros e He. eapply word_ok_frame; [apply Hok; now right|]. intro Pe. rewrite F.
      unfold wptr in Dis. destruct (is_ptr_dec w) as [P|P]; [|reflexivity].
      destruct (Z.eqb_spec (getPtr w) (getPtr (snd e))) as [E|E]; [|reflexivity].
      exfalso. apply (Dis (getPtr w)); [now left|]. apply ptrs_In. exists (fst e), (snd e).
      destruct e; simpl in *. auto. }
    destruct (IH h1 Ok1 ND2) as [h' [D' [N' [F1 F2]]]]. exists h'. split; [exact D'|]. split; [congruence|].
    split.
    + intros b Hb. apply in_app_or in Hb. destruct (in_dec Z.eq_dec b (ptrs l)) as [Hin|Hnin]; [now apply F1|].
      rewrite F2 by exact Hnin. destruct Hb as [Hb|Hb]; [|contradiction].
      rewrite F. unfold wptr in Hb. destruct (is_ptr_dec w); [|contradiction]. destruct Hb as [Hb|[]]. subst b.
      now rewrite Z.eqb_refl.
    + intros b Hb. rewrite F2 by (intro Hx; apply Hb; apply in_or_app; now right). rewrite F.
      unfold wptr in Hb. destruct (is_ptr_dec w) as [P|P]; [|reflexivity].
      destruct (Z.eqb_spec (getPtr w) b) as [E|E]; [|reflexivity]. exfalso. apply Hb. apply in_or_app. left. now left.
Qed.

Lemma free_all_ok k : forall l h,
  NoDup l -> (forall p, In p l -> exists o, hfind h p = Some o /\ kind o = k) ->
  exists h', free_all k l h = Ok h' /\ next h' = next h /\
    (forall b, In b l -> hfind h' b = None) /\ (forall b, ~ In b l -> hfind h' b = hfind h b).
Proof.
  induction l as [|p l IH]; simpl; intros h ND Hl.
  - exists h. repeat split; auto. tauto.
  - inversion ND as [|? ? Hn ND']; subst.
    destruct (Hl p (or_introl eq_refl)) as [o [Ho Ko]].
    destruct (hfree_ok k p h o Ho Ko) as [h1 Hf]. rewrite Hf.
    apply hfree_spec in Hf. destruct Hf as [_ [N [_ F]]].
    assert (Hl1 : forall q, In q l -> exists o, hfind h1 q = Some o /\ kind o = k).
    { intros q Hq. rewrite F. destruct (Z.eqb_spec p q) as [E|E]; [subst; contradiction|]. apply Hl. now right. }
    destruct (IH h1 ND' Hl1) as [h' [D' [N' [F1 F2]]]]. exists h'. split; [exact D'|]. split; [congruence|]. split.
    + intros b [Hb|Hb]; [|now apply F1]. subst b. rewrite F2 by exact Hn. rewrite F. now rewrite Z.eqb_refl.
    + intros b Hb. rewrite F2 by tauto. rewrite F. destruct (Z.eqb_spec p b) as [E|E]; [|reflexivity]. exfalso. apply Hb. now left.
Qed.

Lemma NoDup_snd (m : list (Z * Z)) :
  NoDup (map fst m) -> (forall i j p, In (i, p) m -> In (j, p) m -> i = j) -> NoDup (map snd m).
Proof.
  induction m as [|[id p] m IH]; simpl; intros ND Inj; [constructor|].
  inversion ND as [|? ? Hn ND']; subst. constructor.
  - intro Hin. apply in_map_iff in Hin. destruct Hin as [[j q] [E Hj]]. simpl in E. subst q.
    assert (id = j) by (eapply Inj; [left; reflexivity|right; exact Hj]). subst j.
    apply Hn. change id with (fst (id, p)). now apply in_map.
  - apply IH; [exact ND'|]. intros. eapply Inj; right; eauto.
Qed.

Lemma cells_empty h : (forall b, hfind h b = None) -> cells h = [].
Proof.
  intro H. destruct (cells h) as [|[a o] r] eqn:E; [reflexivity|].
  specialize (H a). unfold hfind in H. rewrite E in H. simpl in H. rewrite Z.eqb_refl in H. discriminate.
Qed.

Lemma Inv_empty h : 0 < next h -> next h mod ALIGN = 0 -> cells h = [] -> Inv (mk [] 0 [] 0 [] 0 0 0 h).
Proof.
  intros N1 N2 C.
  assert (E : forall a, hfind h a = None) by (intro a; unfold hfind; rewrite C; reflexivity).
  constructor; simpl.
  - auto.
  - intros a o H. rewrite E in H. discriminate.
  - rewrite C. constructor.
  - constructor.
  - intros; discriminate.
  - intros; discriminate.
  - constructor.
  - intros; discriminate.
  - intros; discriminate.
  - intros; contradiction.
  - constructor.
  - intros a o H. rewrite E in H. discriminate.
  - unfold numAtoms. simpl. lia.
Qed.

Theorem reset_ok s : Inv s -> exists h, reset s = (0, mk [] 0 [] 0 [] 0 0 0 h) /\ cells h = [] /\ next h = next (hp s).
Proof.
  intro I. unfold reset.
  assert (InT : forall id w, In (id, w) (terms s) -> aget (terms s) id = Some w) by (intros; apply In_aget; [apply (I_tkeys s I)|assumption]).
  assert (InE : forall id p, In (id, p) (elems s) -> aget (elems s) id = Some p) by (intros; apply In_aget; [apply (I_ekeys s I)|assumption]).
  destruct (destroy_words_ok (terms s) (hp s)) as [h1 [D1 [N1 [F1 G1]]]].
  { intros [id w] He. simpl. apply InT in He. now destruct (I_tdom s I _ _ He). }
  { apply NoDup_ptrs; [apply (I_tkeys s I)|]. intros i j wi wj Hi Hj. apply InT in Hi. apply InT in Hj. now apply (I_tinj s I). }
  rewrite D1.
  assert (TP : forall b, In b (ptrs (terms s)) -> exists id w, aget (terms s) id = Some w /\ is_ptr w /\ getPtr w = b).
  { intros b Hb. apply ptrs_In in Hb. destruct Hb as [id [w [H1 H2]]]. exists id, w. split; [now apply InT|exact H2]. }
  assert (EP : forall p, In p (map snd (elems s)) -> exists id, aget (elems s) id = Some p).
  { intros p Hp. apply in_map_iff in Hp. destruct Hp as [[id q] [E Hq]]. simpl in E. subst q. exists id. now apply InE. }
  destruct (free_all_ok K_ELEM (map snd (elems s)) h1) as [h2 [D2 [N2 [F2 G2]]]].
  { apply NoDup_snd; [apply (I_ekeys s I)|]. intros i j p Hi Hj. apply InE in Hi. apply InE in Hj. eapply (I_einj s I); eauto. }
  { intros p Hp. destruct (EP p Hp) as [id Hid]. destruct (I_edom s I _ _ Hid) as [_ [ts [c Hc]]].
    exists (OElem ts c). split; [|reflexivity]. rewrite G1; [exact Hc|].
    intro Hb. destruct (TP p Hb) as [j [w [Hj [Pj Gj]]]]. eapply term_elem_disjoint; eauto. }
  rewrite D2.
  destruct (free_all_ok K_ATOM (atoms s) h2) as [h3 [D3 [N3 [F3 G3]]]].
  { apply (I_anodup s I). }
  { intros p Hp. destruct (I_adom s I _ Hp) as [a [t [es [g Ha]]]]. exists (OAtom a t es g). split; [|reflexivity].
    rewrite G2, G1; [exact Ha| |].
    - intro Hb. destruct (TP p Hb) as [j [w [Hj [Pj Gj]]]]. eapply term_atom_disjoint; eauto.
    - intro Hb. destruct (EP p Hb) as [j Hj]. eapply elem_atom_disjoint; eauto. }
  rewrite D3. exists h3. split; [reflexivity|]. split; [|congruence].
  apply cells_empty. intro b. destruct (hfind h3 b) as [o|] eqn:Hb; [|reflexivity]. exfalso.
  destruct (in_dec Z.eq_dec b (atoms s)) as [A|A]; [rewrite F3 in Hb by exact A; discriminate|].
  rewrite G3 in Hb by exact A.
  destruct (in_dec Z.eq_dec b (map snd (elems s))) as [B|B]; [rewrite F2 in Hb by exact B; discriminate|].
  rewrite G2 in Hb by exact B.
  destruct (in_dec Z.eq_dec b (ptrs (terms s))) as [C|C]; [rewrite F1 in Hb by exact C; discriminate|].
  rewrite G1 in Hb by exact C.
  destruct (I_owned s I _ _ Hb) as [[j [w [Hj [Pj Gj]]]]|[[j Hj]|Hj]].
  - apply C. apply ptrs_In. exists j, w. split; [now apply aget_In|auto].
  - apply B. apply in_map_iff. exists (j, b). split; [reflexivity|now apply aget_In].
  - contradiction.
Qed.

(* filter *)
Definition keepb (p : aatom -> bool) (h : heap) (q : Z) : bool :=
  match atom_view h q with Ok x => atom_kept p x | Err _ => true end.

Lemma filter_atoms_ok p : forall l h,
  NoDup l -> (forall q, In q l -> exists a t es g, hfind h q = Some (OAtom a t es g)) ->
  exists h', filter_atoms p l h = Ok (filter (keepb p h) l, h') /\ next h' = next h /\
    (forall b, In b l -> keepb p h b = false -> hfind h' b = None) /\
    (forall b, ~ (In b l /\ keepb p h b = false) -> hfind h' b = hfind h b) /\
    (NoDup (map fst (cells h)) -> NoDup (map fst (cells h'))).
Proof.
  induction l as [|a l IH]; simpl; intros h ND Hl.
  - exists h. repeat split; auto. tauto.
  - inversion ND as [|? ? Hn ND']; subst.
    destruct (Hl a (or_introl eq_refl)) as [at_ [t [es [g Ha]]]].
    unfold keepb at 1. unfold atom_view at 1 2. rewrite Ha.
    destruct (atom_kept p (mka at_ t es g)) eqn:K.
    + destruct (IH h ND') as [h' [D [N [F1 [F2 C]]]]]; [intros; apply Hl; now right|].
      rewrite D. exists h'. split; [reflexivity|]. split; [exact N|]. split; [|split; [|exact C]].
      * intros b [Hb|Hb] Kb; [|now apply F1]. subst b. unfold keepb, atom_view in Kb. rewrite Ha in Kb. congruence.
      * intros b Hb. apply F2. intros [H1 H2]. apply Hb. split; [now right|exact H2].
    + destruct (hfree_ok K_ATOM a h _ Ha eq_refl) as [h1 Hf]. rewrite Hf.
      apply hfree_spec in Hf. destruct Hf as [_ [N1 [C1 F]]].
      assert (Same : forall q, q <> a -> keepb p h1 q = keepb p h q).
      { intros q Hq. unfold keepb, atom_view. rewrite F. destruct (Z.eqb_spec a q); [congruence|reflexivity]. }
      destruct (IH h1 ND') as [h' [D [N [F1 [F2 C]]]]].
      { intros q Hq. rewrite F. destruct (Z.eqb_spec a q) as [E|E]; [subst; contradiction|]. apply Hl. now right. }
      rewrite D. exists h'. split.
      { f_equal. f_equal. apply filter_ext_in. intros q Hq. apply Same. intro E. subst. contradiction. }
      split; [congruence|]. split; [|split].
      * intros b [Hb|Hb] Kb.
        -- subst b. rewrite F2; [rewrite F; now rewrite Z.eqb_refl|]. intros [H1 _]. contradiction.
        -- apply F1; [exact Hb|]. rewrite Same; [exact Kb|]. intro E. subst. contradiction.
      * intros b Hb. assert (b <> a).
        { intro E. subst b. apply Hb. split; [now left|]. unfold keepb, atom_view. rewrite Ha. exact K. }
        rewrite F2.
        -- rewrite F. destruct (Z.eqb_spec a b); [congruence|reflexivity].
        -- intros [H1 H2]. apply Hb. split; [now right|]. rewrite <- Same; assumption.
      * intro NDc. apply C. rewrite C1. now apply NoDup_adel.
Qed.

Lemma NoDup_app_filter {X} (f : X -> bool) (l1 l2 : list X) : NoDup (l1 ++ l2) -> NoDup (l1 ++ filter f l2).
Proof.
  induction l1 as [|y l1 IH]; simpl; intro H.
  - now apply NoDup_filter.
  - inversion H as [|? ? Hn ND]; subst. constructor; [|now apply IH].
    intro Hy. apply Hn. apply in_app_or in Hy. apply in_or_app. destruct Hy as [Hy|Hy]; [now left|].
    right. apply filter_In in Hy. tauto.
Qed.

Lemma P_filter s p :
  Inv s ->
  exists h, filter_atoms p (skipn (Z.to_nat (fatom s)) (atoms s)) (hp s) =
              Ok (filter (keepb p (hp s)) (skipn (Z.to_nat (fatom s)) (atoms s)), h) /\
    (forall b, ~ In b (atoms s) -> hfind h b = hfind (hp s) b) /\
    (forall b, In b (firstn (Z.to_nat (fatom s)) (atoms s) ++ filter (keepb p (hp s)) (skipn (Z.to_nat (fatom s)) (atoms s))) ->
               hfind h b = hfind (hp s) b) /\
    Inv (set_hp (set_atoms s (firstn (Z.to_nat (fatom s)) (atoms s) ++
                              filter (keepb p (hp s)) (skipn (Z.to_nat (fatom s)) (atoms s)))) h).
Proof.
  intro I. set (k := Z.to_nat (fatom s)). set (l := skipn k (atoms s)).
  assert (Split : atoms s = firstn k (atoms s) ++ l) by (symmetry; apply firstn_skipn).
  assert (NDa : NoDup (firstn k (atoms s) ++ l)) by (rewrite <- Split; apply (I_anodup s I)).
  destruct (NoDup_app_inv _ _ NDa) as [ND1 [ND2 Dis]].
  assert (InL : forall q, In q l -> In q (atoms s)) by (intros q Hq; rewrite Split; apply in_or_app; now right).
  destruct (filter_atoms_ok p l (hp s) ND2) as [h [D [N [F1 [F2 C]]]]].
  { intros q Hq. apply (I_adom s I). now apply InL. }
  exists h. split; [exact D|].
  assert (G1 : forall b, ~ In b (atoms s) -> hfind h b = hfind (hp s) b).
  { intros b Hb. apply F2. intros [H1 _]. apply Hb. now apply InL. }
  assert (G2 : forall b, In b (firstn k (atoms s) ++ filter (keepb p (hp s)) l) -> hfind h b = hfind (hp s) b).
  { intros b Hb. apply F2. intros [H1 H2]. apply in_app_or in Hb. destruct Hb as [Hb|Hb].
    - now apply (Dis b).
    - apply filter_In in Hb. destruct Hb as [_ Hb]. congruence. }
  split; [exact G1|]. split; [exact G2|].
  assert (Sub : forall b, In b (firstn k (atoms s) ++ filter (keepb p (hp s)) l) -> In b (atoms s)).
  { intros b Hb. rewrite Split. apply in_app_or in Hb. apply in_or_app. destruct Hb as [Hb|Hb]; [now left|].
    right. apply filter_In in Hb. tauto. }
  constructor; sproj.
  - rewrite N. apply (I_next s I).
  - intros a o Ha. rewrite N. destruct (in_dec Z.eq_dec a l) as [Hl|Hl].
    + destruct (keepb p (hp s) a) eqn:Ka.
      * rewrite F2 in Ha by (intros [_ H2]; congruence). now apply (I_cells s I) in Ha.
      * rewrite F1 in Ha by assumption. discriminate.
    + rewrite F2 in Ha by tauto. now apply (I_cells s I) in Ha.
  - apply C, (I_ckeys s I).
  - apply (I_tkeys s I).
  - intros j wj Hj. destruct (I_tdom s I _ _ Hj) as [Rj Okj]. split; [exact Rj|].
    eapply word_ok_frame; [exact Okj|]. intro Pj. apply G1. intro Hin. eapply term_atom_disjoint; eauto.
  - apply (I_tinj s I).
  - apply (I_ekeys s I).
  - intros j q Hj. destruct (I_edom s I _ _ Hj) as [Rj [ts [c Hq]]]. split; [exact Rj|]. exists ts, c.
    rewrite G1; [exact Hq|]. intro Hin. eapply elem_atom_disjoint; eauto.
  - apply (I_einj s I).
  - intros q Hq. rewrite (G2 q Hq). apply (I_adom s I). now apply Sub.
  - now apply NoDup_app_filter.
  - intros a o Ha. assert (Ha' : hfind (hp s) a = Some o).
    { destruct (in_dec Z.eq_dec a l) as [Hl|Hl].
      - destruct (keepb p (hp s) a) eqn:Ka.
        + rewrite F2 in Ha by (intros [_ H2]; congruence). exact Ha.
        + rewrite F1 in Ha by assumption. discriminate.
      - rewrite F2 in Ha by tauto. exact Ha. }
    destruct (I_owned s I _ _ Ha') as [?|[?|Hin]]; [left; assumption|right; left; assumption|].
    right; right. sproj. rewrite Split in Hin. apply in_app_or in Hin. apply in_or_app.
    destruct Hin as [Hin|Hin]; [now left|]. right. apply filter_In. split; [exact Hin|].
    destruct (keepb p (hp s) a) eqn:Ka; [reflexivity|]. rewrite F1 in Ha by assumption. discriminate.
  - pose proof (I_frame s I) as Fr. unfold numAtoms in *. sproj. rewrite app_length, firstn_length. subst k. lia.
Qed.
