(* C12 - the property-level statements assembled from the lemmas. *)
Require Import V.Lib.Base V.Lib.Calls V.Gen.Consts V.Gen.Consts_C12 V.C12.Spec V.C12.Model
  V.C12.ProofsBase V.C12.ProofsInv V.C12.ProofsRef V.C12.ProofsHist V.C12.ProofsVisit.
Require Import ZifyBool Permutation.
Local Open Scope Z_scope.

(* the tagged word *)
Theorem number_word n :
  -2147483648 <= n <= 2147483647 ->
  number (mk_num n) = n /\ wtype (mk_num n) = Theory_t_Number /\ valid (mk_num n) = true /\ mk_num n <> NUL_TERM /\ 0 <= mk_num n < WORD.
Proof.
  intro H. split; [now apply number_mk_num|]. split; [apply wtype_mk_num|]. split; [apply valid_mk_num|].
  split; [|apply mk_num_range]. pose proof (valid_mk_num n) as V. unfold valid in V. intro E. rewrite E, Z.eqb_refl in V. discriminate.
Qed.

(* histories from the empty store *)
Theorem history_refines ops :
  Forall wf_op ops ->
  fst (run init ops) = fst (s_run a_init ops) /\
  aeq (abs (snd (run init ops))) (snd (s_run a_init ops)) /\
  lookups_agree (snd (run init ops)) (snd (s_run a_init ops)) /\
  Inv (snd (run init ops)) /\ ~ In EC_FAULT (fst (run init ops)).
Proof.
  intro W. destruct (run_refines ops init a_init Inv_init abs_init W) as [A [B [C D]]].
  split; [exact A|]. split; [exact B|]. split; [now apply lookups_of_aeq|]. split; assumption.
Qed.

(* the ledger after every history, and after the final reset / destruction *)
Theorem history_ledger ops :
  Forall wf_op ops ->
  let s := snd (run init ops) in
  Inv s /\
  (forall a, (exists o, hfind (hp s) a = Some o) <-> owned s a) /\
  Permutation (map fst (cells (hp s))) (owners s) /\
  live (hp s) = Z.of_nat (length (owners s)) /\
  ~ In EC_FAULT (fst (run init ops)) /\
  fst (reset s) = 0 /\ cells (hp (snd (reset s))) = [] /\ live (hp (snd (reset s))) = 0.
Proof.
  intro W. cbv zeta. destruct (run_refines ops init a_init Inv_init abs_init W) as [_ [_ [I F]]].
  destruct (ledger_exact _ I) as [A [B C]]. destruct (reset_ok _ I) as [h [E [Ce _]]].
  split; [exact I|]. split; [exact A|]. split; [exact B|]. split; [exact C|]. split; [exact F|].
  rewrite E. simpl. unfold live. rewrite Ce. auto.
Qed.

(* what was added is what comes back, as the directive print() emits *)
Theorem print_roundtrip s :
  Inv s ->
  (forall id n, wf_op (OAddNum id n) -> fst (step s (OAddNum id n)) = 0 ->
     getTerm (snd (step s (OAddNum id n))) id = Ok (ANum n) /\ call_of_term id (ANum n) = CTNum id n) /\
  (forall id b, wf_op (OAddSym id b) -> fst (step s (OAddSym id b)) = 0 ->
     getTerm (snd (step s (OAddSym id b))) id = Ok (ASym b) /\ call_of_term id (ASym b) = CTSym id b) /\
  (forall id base args, wf_op (OAddComp id base args) -> fst (step s (OAddComp id base args)) = 0 ->
     getTerm (snd (step s (OAddComp id base args))) id = Ok (AComp base args) /\ call_of_term id (AComp base args) = CTComp id base args) /\
  (forall id ts c, wf_op (OAddElem id ts c) -> fst (step s (OAddElem id ts c)) = 0 ->
     getElement (snd (step s (OAddElem id ts c))) id = Ok (mke ts c) /\ call_of_elem id (mke ts c) = CTElem id ts [c]) /\
  (forall a t es g, wf_op (OAddAtom a t es g) ->
     atom_views (hp (snd (step s (OAddAtom a t es g)))) (atoms (snd (step s (OAddAtom a t es g)))) = Ok (vA s ++ [mka a t es g]) /\
     call_of_atom (mka a t es g) = match g with None => CTAtom a t es | Some (o, r) => CTAtomG a t es o r end).
Proof.
  intro I.
  assert (Add : forall o id t, wf_op o -> s_step (abs s) o = s_add_term (abs s) id t -> fst (step s o) = 0 ->
                  getTerm (snd (step s o)) id = Ok t).
  { intros o id t W Eo Z0. destruct (step_refines s o I W) as [R1 [R2 [R3 _]]]. rewrite Eo in R1, R2.
    unfold s_add_term in R1, R2. destruct (s_new_term (abs s) id).
    - simpl in R1. rewrite Z0 in R1. unfold EC_REDEF_TERM in R1. discriminate.
    - rewrite (getTerm_abs _ id R3). destruct R2 as [QT _]. simpl in QT. rewrite QT. unfold upd. rewrite Z.eqb_refl. reflexivity. }
  split; [|split; [|split; [|split]]].
  - intros id n W Z0. split; [|reflexivity]. apply (Add _ id (ANum n) W eq_refl Z0).
  - intros id b W Z0. split; [|reflexivity]. apply (Add _ id (ASym b) W eq_refl Z0).
  - intros id base args W Z0. split; [|reflexivity]. apply (Add _ id (AComp base args) W eq_refl Z0).
  - intros id ts c W Z0. split; [|reflexivity]. destruct (step_refines s _ I W) as [R1 [R2 [R3 _]]].
    cbn [s_step] in R1, R2. destruct (s_new_elem (abs s) id).
    + cbn [fst] in R1. rewrite Z0 in R1. unfold EC_REDEF_ELEM in R1. discriminate.
    + rewrite (getElement_abs _ id R3). destruct R2 as [_ [_ [QE _]]]. simpl in QE. rewrite QE. unfold upd. rewrite Z.eqb_refl. reflexivity.
  - intros a t es g W. split; [|destruct g as [[o r]|]; reflexivity]. destruct (step_refines s _ I W) as [_ [R2 [R3 _]]].
    destruct R2 as [_ [_ [_ [_ [QA _]]]]]. change (vA (snd (step s (OAddAtom a t es g))) = vA s ++ [mka a t es g]) in QA.
    rewrite <- QA, (vA_char _ R3).
    apply atom_views_ok. apply (I_adom _ R3).
Qed.

(* filter *)
Theorem filter_exact s p :
  Inv s ->
  let s' := snd (step s (OFilter p)) in
  let k := Z.to_nat (fatom s) in
  fst (step s (OFilter p)) = 0 /\ Inv s' /\
  vA s' = firstn k (vA s) ++ filter (atom_kept p) (skipn k (vA s)) /\
  (forall x, In x (filter (atom_kept p) (skipn k (vA s))) <-> In x (skipn k (vA s)) /\ (a_atom x = 0 \/ p x = false)) /\
  (forall id, vT s' id = vT s id) /\ (forall id, vE s' id = vE s id) /\ fatom s' = fatom s /\
  live (hp s') = live (hp s) - Z.of_nat (length (skipn k (vA s))) + Z.of_nat (length (filter (atom_kept p) (skipn k (vA s)))).
Proof.
  intro I. cbv zeta. pose proof (step_refines s (OFilter p) I Logic.I) as R. unfold refines in R.
  assert (ET : terms (snd (step s (OFilter p))) = terms s /\ elems (snd (step s (OFilter p))) = elems s).
  { cbn [step]. unfold filterOp. destruct (numAtoms s <? fatom s); [auto|].
    destruct (filter_atoms p _ (hp s)) as [[kept h]|]; auto. }
  remember (step s (OFilter p)) as r eqn:Er. destruct R as [R1 [R2 [R3 _]]].
  cbn [s_step fst snd] in R1, R2. destruct R2 as [QT [_ [QE [_ [QA [QbA _]]]]]].
  cbn [abs T nT E nE A bA bT bE] in QT, QE, QA, QbA.
  split; [exact R1|]. split; [exact R3|]. split; [exact QA|]. split.
  { intro x. rewrite filter_In. unfold atom_kept. split; intros [H1 H2]; (split; [exact H1|]).
    - destruct (a_atom x =? 0) eqn:E; [left; lia|right]. simpl in H2. now destruct (p x).
    - destruct H2 as [H2|H2]; [apply Z.eqb_eq in H2; rewrite H2; reflexivity|rewrite H2; now rewrite andb_false_r]. }
  split; [exact QT|]. split; [exact QE|]. split; [exact QbA|].
  destruct (ledger_exact s I) as [_ [_ L]]. destruct (ledger_exact _ R3) as [_ [_ L']].
  rewrite L, L'. unfold owners. rewrite !app_length.
  destruct ET as [Et Ee]. rewrite Et, Ee.
  assert (LA : length (atoms (snd r)) = length (vA (snd r))) by (rewrite (vA_char _ R3), map_length; reflexivity).
  assert (LA0 : length (atoms s) = length (vA s)) by (rewrite (vA_char _ I), map_length; reflexivity).
  rewrite LA, QA, LA0. rewrite app_length. rewrite <- (firstn_skipn (Z.to_nat (fatom s)) (vA s)) at 3. rewrite app_length. lia.
Qed.

(* a symbol with an embedded NUL does not come back (known finding symbol-nul) *)
Theorem symbol_nul_refuted :
  exists b, fst (step init (OAddSym 0 b)) = 0 /\ getTerm (snd (step init (OAddSym 0 b))) 0 <> Ok (ASym b).
Proof. exists [200; 0; 48]. split; [reflexivity|]. vm_compute. discriminate. Qed.

(* ---------- re-defining an item of an earlier step with its OWN stored content ----------
   td.addTerm(id, newName, td.getTerm(id).terms()), td.addTerm(id, td.getTerm(id).symbol()),
   td.addElement(id, td.getElement(id).terms(), newCond): the argument is a VALUE - the content the store holds for id when
   the call is made.  The item that comes back afterwards has exactly that content, every other item is untouched. *)
Lemma nul_free_cut0 l : nul_free (cut0 l).
Proof.
  induction l as [|c r IH]; [constructor|]. cbn [cut0]. destruct (Z.eqb_spec c 0); [constructor|].
  constructor; assumption.
Qed.

Lemma view_sym_nul_free h w b : view_word h w = Ok (ASym b) -> nul_free b.
Proof.
  unfold view_word. cbv zeta.
  destruct (wtype w =? Theory_t_Number); [discriminate|].
  destruct (wtype w =? Theory_t_Symbol).
  - destruct (hfind h (getPtr w)) as [[b0| | |]|]; try discriminate. intro H. inversion H. apply nul_free_cut0.
  - destruct (wtype w =? Theory_t_Compound); [|discriminate].
    destruct (hfind h (getPtr w)) as [[| | |]|]; discriminate.
Qed.

Lemma readd_term s o id t : Inv s -> wf_op o -> s_step (abs s) o = s_add_term (abs s) id t -> isNewTerm s id = false ->
  fst (step s o) = 0 /\ getTerm (snd (step s o)) id = Ok t /\ (forall j, j <> id -> getTerm (snd (step s o)) j = getTerm s j).
Proof.
  intros I W Eo Hn. destruct (step_refines s o I W) as [R1 [R2 [R3 _]]]. rewrite Eo in R1, R2.
  unfold s_add_term in R1, R2. rewrite new_term_abs in R1, R2 by exact I. rewrite Hn in R1, R2. cbn [fst snd] in R1, R2.
  split; [exact R1|]. destruct R2 as [QT _]. cbn [T] in QT.
  split.
  - rewrite (getTerm_abs _ id R3). change (vT (snd (step s o)) id) with (T (abs (snd (step s o))) id). rewrite QT. unfold upd. rewrite Z.eqb_refl. reflexivity.
  - intros j Hj. rewrite (getTerm_abs _ j R3), (getTerm_abs _ j I).
    change (vT (snd (step s o)) j) with (T (abs (snd (step s o))) j). rewrite QT. unfold upd.
    destruct (Z.eqb_spec j id); [contradiction | reflexivity].
Qed.

Theorem redefine_own_content s id :
  Inv s -> 0 <= id ->
  (forall base args base', isNewTerm s id = false -> getTerm s id = Ok (AComp base args) ->
     let s' := snd (step s (OAddComp id base' args)) in
     fst (step s (OAddComp id base' args)) = 0 /\ getTerm s' id = Ok (AComp base' args) /\
     (forall j, j <> id -> getTerm s' j = getTerm s j)) /\
  (forall b, isNewTerm s id = false -> getTerm s id = Ok (ASym b) ->
     let s' := snd (step s (OAddSym id b)) in
     fst (step s (OAddSym id b)) = 0 /\ getTerm s' id = Ok (ASym b) /\
     (forall j, j <> id -> getTerm s' j = getTerm s j)) /\
  (forall ts c c', isNewElement s id = false -> getElement s id = Ok (mke ts c) ->
     let s' := snd (step s (OAddElem id ts c')) in
     fst (step s (OAddElem id ts c')) = 0 /\ getElement s' id = Ok (mke ts c') /\
     (forall j, j <> id -> getElement s' j = getElement s j)).
Proof.
  intros I Hid. split; [|split].
  - intros base args base' Hn _. cbv zeta. apply (readd_term s _ id (AComp base' args) I); [exact Hid | reflexivity | exact Hn].
  - intros b Hn Hg. cbv zeta. apply (readd_term s _ id (ASym b) I); [|reflexivity|exact Hn].
    split; [exact Hid|]. unfold getTerm in Hg. destruct (hasTerm s id); [|discriminate]. exact (view_sym_nul_free _ _ _ Hg).
  - intros ts c c' Hn _. cbv zeta.
    destruct (step_refines s (OAddElem id ts c') I Hid) as [R1 [R2 [R3 _]]].
    cbn [s_step] in R1, R2. rewrite new_elem_abs in R1, R2 by exact I. rewrite Hn in R1, R2. cbn [fst snd] in R1, R2.
    split; [exact R1|]. destruct R2 as [_ [_ [QE _]]]. cbn [E] in QE. split.
    + rewrite (getElement_abs _ id R3). change (vE (snd (step s (OAddElem id ts c'))) id) with (E (abs (snd (step s (OAddElem id ts c')))) id).
      rewrite QE. unfold upd. rewrite Z.eqb_refl. reflexivity.
    + intros j Hj. rewrite (getElement_abs _ j R3), (getElement_abs _ j I).
      change (vE (snd (step s (OAddElem id ts c'))) j) with (E (abs (snd (step s (OAddElem id ts c')))) j). rewrite QE. unfold upd.
      destruct (Z.eqb_spec j id); [contradiction | reflexivity].
Qed.
