(* C12 - executable model of Potassco::TheoryData (src/theory_data.cpp, potassco/theory_data.h),
   after the repairs bac2265 (FuncData freed when setTerm refuses), dcb2b38, 4c76fde (symbol copied before
   setTerm) and fe607fc (new element built before the old one is freed).

   Concrete state
     terms / elems : the two id-indexed RawStacks as sparse vectors: (size, association id -> cell);
                     an id below the size without an entry is the default cell (TheoryTerm() = nulTerm,
                     TheoryElement* = 0).  A term cell holds the tagged 64-bit word as a Z.
     atoms         : the stack of TheoryAtom* (addresses).
     fatom/fterm/felem : Data::Up frame.
     hp            : the heap = ALLOCATION LEDGER: the live cells (address, object with its kind) that
                     the library obtained from operator new / new[] and has not given back, plus the
                     next fresh address.  Freeing an address that is not live, or with the wrong
                     deallocation kind, or reading through it, is a fault (EC_FAULT) - so leaks, double
                     frees and dangling reads are expressible.  The allocator is modelled as returning
                     fresh ALIGN-aligned addresses (the code never compares addresses).
   The C++ push loops `for (i = size; i <= id; ++i) push()` are written in closed form (size := max size (id+1)).
   Definitions only; proofs are in Proofs*.v.                                                          *)
Require Import V.Lib.Base V.Lib.Calls V.Gen.Consts V.Gen.Consts_C12 V.C12.Spec.
Local Open Scope Z_scope.

Inductive R (X : Type) := Ok (x : X) | Err (e : Z).
Arguments Ok {X} x. Arguments Err {X} e.

(* ---------- association lists keyed by Z (first match wins; del removes every match) ---------- *)
Section AL.
Context {V : Type}.
Fixpoint aget (m : list (Z * V)) (k : Z) : option V :=
  match m with [] => None | (k', v) :: r => if k' =? k then Some v else aget r k end.
Fixpoint adel (m : list (Z * V)) (k : Z) : list (Z * V) :=
  match m with [] => [] | (k', v) :: r => if k' =? k then adel r k else (k', v) :: adel r k end.
Definition aset (m : list (Z * V)) (k : Z) (v : V) := (k, v) :: adel m k.
End AL.

(* ---------- the tagged word ---------- *)
Definition wrap32 (x : Z) : Z := (x + 2147483648) mod 4294967296 - 2147483648.   (* static_cast<int32_t> / <int> *)
Definition TYPE_MOD : Z := TYPE_MASK + 1.
(* data_ = (static_cast<uint64_t>(num) << 2) | Theory_t::Number *)
Definition mk_num (n : Z) : Z := ((n mod WORD) * TAG_MUL) mod WORD + Theory_t_Number.
Definition valid (w : Z) : bool := negb (w =? NUL_TERM).
Definition wtype (w : Z) : Z := w mod TYPE_MOD.                 (* data_ & typeMask *)
Definition number (w : Z) : Z := wrap32 (w / TAG_MUL).          (* static_cast<int>(data_ >> 2) *)
Definition getPtr (w : Z) : Z := w - w mod TYPE_MOD.            (* data_ & ~typeMask *)
(* assertPtr(p) | tag : on a value with (p & 3) == 0 the bit-or is an addition *)
Definition mk_ptr (p tag : Z) : R Z := if p mod ALIGN =? 0 then Ok (p + tag) else Err EC_ALIGN.

(* ---------- heap / ledger ---------- *)
Inductive obj :=
| OSym (b : list Z)                                   (* new char[..] : the bytes followed by NUL *)
| OFunc (base : Z) (args : list Z)                    (* FuncData *)
| OElem (ts : list Z) (cond : option Z)               (* TheoryElement; None: nCond_ = 0, no slot *)
| OAtom (atom term : Z) (es : list Z) (g : option (Z * Z)).
Definition K_SYM := 1. Definition K_FUNC := 2. Definition K_ELEM := 3. Definition K_ATOM := 4.
Definition kind (o : obj) : Z :=
  match o with OSym _ => K_SYM | OFunc _ _ => K_FUNC | OElem _ _ => K_ELEM | OAtom _ _ _ _ => K_ATOM end.

Record heap := mkh { cells : list (Z * obj); next : Z }.
Definition h_init : heap := mkh [] ALIGN.
Definition hfind (h : heap) (a : Z) : option obj := aget (cells h) a.
Definition halloc (o : obj) (h : heap) : Z * heap :=
  (next h, mkh ((next h, o) :: cells h) (next h + ALIGN)).
Definition hfree (k : Z) (a : Z) (h : heap) : R heap :=
  match hfind h a with
  | Some o => if kind o =? k then Ok (mkh (adel (cells h) a) (next h)) else Err EC_FAULT
  | None => Err EC_FAULT
  end.
Definition hwrite (a : Z) (o : obj) (h : heap) : heap := mkh (aset (cells h) a o) (next h).
Definition live (h : heap) : Z := Z.of_nat (length (cells h)).

(* ---------- state ---------- *)
Record st := mk { terms : list (Z * Z); nterms : Z; elems : list (Z * Z); nelems : Z;
                  atoms : list Z; fatom : Z; fterm : Z; felem : Z; hp : heap }.
Definition init : st := mk [] 0 [] 0 [] 0 0 0 h_init.

Definition set_hp (s : st) (h : heap) := mk (terms s) (nterms s) (elems s) (nelems s) (atoms s) (fatom s) (fterm s) (felem s) h.
Definition set_terms (s : st) (t : list (Z * Z)) (n : Z) := mk t n (elems s) (nelems s) (atoms s) (fatom s) (fterm s) (felem s) (hp s).
Definition set_elems (s : st) (e : list (Z * Z)) (n : Z) := mk (terms s) (nterms s) e n (atoms s) (fatom s) (fterm s) (felem s) (hp s).
Definition set_atoms (s : st) (a : list Z) := mk (terms s) (nterms s) (elems s) (nelems s) a (fatom s) (fterm s) (felem s) (hp s).

Definition tread (s : st) (id : Z) : Z := match aget (terms s) id with Some w => w | None => NUL_TERM end.
Definition eread (s : st) (id : Z) : Z := match aget (elems s) id with Some p => p | None => 0 end.

Definition hasTerm (s : st) (id : Z) : bool := (id <? nterms s) && valid (tread s id).
Definition isNewTerm (s : st) (id : Z) : bool := hasTerm s id && (fterm s <=? id).
Definition hasElement (s : st) (id : Z) : bool := (id <? nelems s) && negb (eread s id =? 0).
Definition isNewElement (s : st) (id : Z) : bool := hasElement s id && (felem s <=? id).
Definition numAtoms (s : st) : Z := Z.of_nat (length (atoms s)).

(* DestroyT()(TheoryTerm&) *)
Definition destroy_word (w : Z) (h : heap) : R heap :=
  if valid w then
    if wtype w =? Theory_t_Compound then hfree K_FUNC (getPtr w) h
    else if wtype w =? Theory_t_Symbol then hfree K_SYM (getPtr w) h
    else Ok h
  else Ok h.

Definition removeTerm (id : Z) (s : st) : R st :=
  if hasTerm s id then
    match destroy_word (tread s id) (hp s) with
    | Ok h => Ok (set_hp (set_terms s (adel (terms s) id) (nterms s)) h)     (* terms()[id] = Term() *)
    | Err e => Err e
    end
  else Ok s.

(* TheoryTerm& setTerm(Id_t) : on Err the state is untouched *)
Definition setTerm (id : Z) (s : st) : R st :=
  if negb (hasTerm s id) then Ok (set_terms s (terms s) (Z.max (nterms s) (id + 1)))
  else if isNewTerm s id then Err EC_REDEF_TERM
  else removeTerm id s.
Definition twrite (s : st) (id w : Z) : st := set_terms s (aset (terms s) id w) (nterms s).

Definition addTermNum (id n : Z) (s : st) : Z * st :=
  match setTerm id s with
  | Ok s1 => (0, twrite s1 id (mk_num n))
  | Err e => (e, s)
  end.

(* addTerm(id, const StringSpan&) after 4c76fde: char* buf = new char[..]; copy the name;
   try { return setTerm(id) = TheoryTerm(buf); } catch (...) { delete [] buf; throw; }
   - the copy is made BEFORE setTerm() frees the term being replaced (the name may be that term's own symbol) *)
Definition addTermSym (id : Z) (b : list Z) (s : st) : Z * st :=
  let '(a, h) := halloc (OSym b) (hp s) in
  let s0 := set_hp s h in
  let undo (e : Z) := match hfree K_SYM a (hp s0) with Ok h' => (e, set_hp s0 h') | Err e' => (e', s0) end in
  match mk_ptr a Theory_t_Symbol with                      (* right operand first: TheoryTerm(buf) *)
  | Ok w =>
      match setTerm id s0 with
      | Ok s1 => (0, twrite s1 id w)
      | Err e => undo e
      end
  | Err e => undo e
  end.

(* FuncData* f = newFunc(base, args); try { return setTerm(id) = TheoryTerm(f); } catch (...) { destroy(f); throw; } *)
Definition addTermComp (id base : Z) (args : list Z) (s : st) : Z * st :=
  let '(a, h) := halloc (OFunc base args) (hp s) in
  let s0 := set_hp s h in
  let undo (e : Z) := match hfree K_FUNC a (hp s0) with Ok h' => (e, set_hp s0 h') | Err e' => (e', s0) end in
  match mk_ptr a Theory_t_Compound with                    (* right operand first: TheoryTerm(f) *)
  | Ok w =>
      match setTerm id s0 with
      | Ok s1 => (0, twrite s1 id w)
      | Err e => undo e
      end
  | Err e => undo e
  end.

Definition removeTermOp (id : Z) (s : st) : Z * st :=
  match removeTerm id s with Ok s1 => (0, s1) | Err e => (e, s) end.

(* addElement after fe607fc: push / redefinition check; TheoryElement* e = newElement(terms, cId);
   DestroyT()(elems()[id]) (a null pointer - the id was not in use - is left alone); elems()[id] = e
   - the new element is built BEFORE the old one is freed (terms may be the old element's own span) *)
Definition addElement (id : Z) (ts : list Z) (c : Z) (s : st) : Z * st :=
  let prep : R st :=
    if negb (hasElement s id) then Ok (set_elems s (elems s) (Z.max (nelems s) (id + 1)))
    else if isNewElement s id then Err EC_REDEF_ELEM
    else Ok s in
  match prep with
  | Ok s1 =>
      let '(a, h) := halloc (OElem ts (if c =? 0 then None else Some c)) (hp s1) in
      let old := eread s1 id in
      match (if old =? 0 then Ok h else hfree K_ELEM old h) with
      | Ok h' => (0, set_hp (set_elems s1 (aset (elems s1) id a) (nelems s1)) h')
      | Err e => (e, s)
      end
  | Err e => (e, s)
  end.

Definition cond_of (c : option Z) : Z := match c with None => 0 | Some x => x end.

Definition getElement (s : st) (id : Z) : R aelem :=
  if hasElement s id then
    match hfind (hp s) (eread s id) with
    | Some (OElem ts c) => Ok (mke ts (cond_of c))
    | _ => Err EC_FAULT
    end
  else Err EC_UNKNOWN_ELEM.

Definition setCondition (id c : Z) (s : st) : Z * st :=
  match getElement s id with
  | Ok e =>
      if e_cond e =? COND_DEFERRED
      then (0, set_hp s (hwrite (eread s id) (OElem (e_terms e) (Some c)) (hp s)))
      else (EC_NOT_DEFERRED, s)
  | Err e => (e, s)
  end.

Definition addAtom (a t : Z) (es : list Z) (g : option (Z * Z)) (s : st) : Z * st :=
  let '(p, h) := halloc (OAtom (a mod ATOM_MOD) t es g) (hp s) in
  (0, set_hp (set_atoms s (atoms s ++ [p])) h).

Definition update (s : st) : st :=
  mk (terms s) (nterms s) (elems s) (nelems s) (atoms s) (numAtoms s) (nterms s) (nelems s) (hp s).

(* reset(): for_each(terms, destroy); for_each(elems, destroy); for_each(atoms, destroy); release; frame = Up() *)
Fixpoint destroy_words (l : list (Z * Z)) (h : heap) : R heap :=
  match l with
  | [] => Ok h
  | (_, w) :: r => match destroy_word w h with Ok h1 => destroy_words r h1 | Err e => Err e end
  end.
Fixpoint free_all (k : Z) (l : list Z) (h : heap) : R heap :=
  match l with
  | [] => Ok h
  | p :: r => match hfree k p h with Ok h1 => free_all k r h1 | Err e => Err e end
  end.
Definition reset (s : st) : Z * st :=
  match destroy_words (terms s) (hp s) with
  | Ok h1 =>
      match free_all K_ELEM (map snd (elems s)) h1 with
      | Ok h2 =>
          match free_all K_ATOM (atoms s) h2 with
          | Ok h3 => (0, mk [] 0 [] 0 [] 0 0 0 h3)
          | Err e => (e, s)
          end
      | Err e => (e, s)
      end
  | Err e => (e, s)
  end.

Definition atom_view (h : heap) (p : Z) : R aatom :=
  match hfind h p with Some (OAtom a t es g) => Ok (mka a t es g) | _ => Err EC_FAULT end.

(* template filter(f): atoms from currBegin() on; an atom with atom() != 0 and f(atom) is destroyed *)
Fixpoint filter_atoms (p : aatom -> bool) (l : list Z) (h : heap) : R (list Z * heap) :=
  match l with
  | [] => Ok ([], h)
  | a :: r =>
      match atom_view h a with
      | Ok x =>
          if atom_kept p x
          then match filter_atoms p r h with Ok (k, h2) => Ok (a :: k, h2) | Err e => Err e end
          else match hfree K_ATOM a h with Ok h1 => filter_atoms p r h1 | Err e => Err e end
      | Err e => Err e
      end
  end.
Definition filterOp (p : aatom -> bool) (s : st) : Z * st :=
  if numAtoms s <? fatom s then (EC_FAULT, s) else           (* currBegin() beyond end(): never *)
  let k := Z.to_nat (fatom s) in
  match filter_atoms p (skipn k (atoms s)) (hp s) with
  | Ok (kept, h) => (0, set_hp (set_atoms s (firstn k (atoms s) ++ kept)) h)   (* resizeAtoms(numAtoms() - pop) *)
  | Err e => (e, s)
  end.

Definition step (s : st) (o : op) : Z * st :=
  match o with
  | OAddNum id n => addTermNum id n s
  | OAddSym id b => addTermSym id b s
  | OAddComp id base args => addTermComp id base args s
  | ORemoveTerm id => removeTermOp id s
  | OAddElem id ts c => addElement id ts c s
  | OSetCond id c => setCondition id c s
  | OAddAtom a t es g => addAtom a t es g s
  | OUpdate => (0, update s)
  | OReset => reset s
  | OFilter p => filterOp p s
  end.

(* ---------- lookups ---------- *)
Definition view_word (h : heap) (w : Z) : R aterm :=
  let t := wtype w in
  if t =? Theory_t_Number then Ok (ANum (number w))
  else if t =? Theory_t_Symbol then
    match hfind h (getPtr w) with Some (OSym b) => Ok (ASym (cut0 b)) | _ => Err EC_FAULT end   (* const char* view *)
  else if t =? Theory_t_Compound then
    match hfind h (getPtr w) with Some (OFunc b a) => Ok (AComp b a) | _ => Err EC_FAULT end
  else Err EC_FAULT.
Definition getTerm (s : st) (id : Z) : R aterm :=
  if hasTerm s id then view_word (hp s) (tread s id) else Err EC_UNKNOWN_TERM.

Fixpoint atom_views (h : heap) (l : list Z) : R (list aatom) :=
  match l with
  | [] => Ok []
  | p :: r => match atom_view h p with
              | Ok x => match atom_views h r with Ok xs => Ok (x :: xs) | Err e => Err e end
              | Err e => Err e
              end
  end.

(* ---------- accept() overloads: which visit() calls they make, in order ---------- *)
Inductive vref := VT (id : Z) (t : aterm) | VE (id : Z) (e : aelem).
Definition doVisitTerm (cur : bool) (s : st) (id : Z) : bool := negb cur || isNewTerm s id.
Definition doVisitElem (cur : bool) (s : st) (id : Z) : bool := negb cur || isNewElement s id.

(* `if (doVisitTerm(m, id)) out.visit(self, id, getTerm(id))` for each id of a list: Ok refs, or the refs
   visited before getTerm threw *)
Fixpoint term_visits (cur : bool) (s : st) (ids : list Z) : list vref * Z :=
  match ids with
  | [] => ([], 0)
  | id :: r =>
      if doVisitTerm cur s id then
        match getTerm s id with
        | Ok t => let '(l, e) := term_visits cur s r in (VT id t :: l, e)
        | Err e => ([], e)
        end
      else term_visits cur s r
  end.
Fixpoint elem_visits (cur : bool) (s : st) (ids : list Z) : list vref * Z :=
  match ids with
  | [] => ([], 0)
  | id :: r =>
      if doVisitElem cur s id then
        match getElement s id with
        | Ok x => let '(l, e) := elem_visits cur s r in (VE id x :: l, e)
        | Err e => ([], e)
        end
      else elem_visits cur s r
  end.
Definition seq_visits (a b : list vref * Z) : list vref * Z :=
  if snd a =? 0 then (fst a ++ fst b, snd b) else a.
(* accept(const TheoryTerm&, ..) *)
Definition accept_term (cur : bool) (s : st) (t : aterm) : list vref * Z := term_visits cur s (term_refs t).
(* accept(const TheoryElement&, ..) *)
Definition accept_elem (cur : bool) (s : st) (e : aelem) : list vref * Z := term_visits cur s (e_terms e).
(* accept(const TheoryAtom&, ..) *)
Definition accept_atom (cur : bool) (s : st) (x : aatom) : list vref * Z :=
  seq_visits (term_visits cur s [a_term x])
    (seq_visits (elem_visits cur s (a_elems x)) (term_visits cur s (atom_term_refs x))).
(* accept(Visitor&, m): the atoms handed to visit() *)
Definition accept_top (cur : bool) (s : st) : R (list aatom) :=
  atom_views (hp s) (if cur then skipn (Z.to_nat (fatom s)) (atoms s) else atoms s).

(* ---------- the harness' recursive visitor: each term/element once (marked before descending),
   sub-items first, then the item itself through print() ---------- *)
Record vacc := mkv { seenT : list Z; seenE : list Z; vout : list call }.
Definition mem (x : Z) (l : list Z) : bool := existsb (Z.eqb x) l.
Definition emit (c : call) (a : vacc) : vacc := mkv (seenT a) (seenE a) (vout a ++ [c]).

(* result: accumulator and error code (0 = none); after an error nothing more is done *)
Definition vbind (r : vacc * Z) (f : vacc -> vacc * Z) : vacc * Z := if snd r =? 0 then f (fst r) else r.

Fixpoint visit_term (fuel : nat) (cur : bool) (s : st) (id : Z) (t : aterm) (a : vacc) : vacc * Z :=
  match fuel with
  | O => (a, EC_FAULT)
  | S f =>
      if mem id (seenT a) then (a, 0) else
      let a1 := mkv (id :: seenT a) (seenE a) (vout a) in
      let '(refs, e) := accept_term cur s t in
      let r := fold_left (fun acc v => vbind acc (fun a' =>
                 match v with VT i t' => visit_term f cur s i t' a' | VE _ _ => (a', 0) end)) refs (a1, 0) in
      vbind (vbind r (fun a' => (a', e))) (fun a' => (emit (call_of_term id t) a', 0))
  end.

Definition visit_refs (fuel : nat) (cur : bool) (s : st) (visit_e : Z -> aelem -> vacc -> vacc * Z)
                      (rs : list vref * Z) (a : vacc) : vacc * Z :=
  let r := fold_left (fun acc v => vbind acc (fun a' =>
             match v with VT i t => visit_term fuel cur s i t a' | VE i x => visit_e i x a' end)) (fst rs) (a, 0) in
  vbind r (fun a' => (a', snd rs)).

Definition visit_elem (fuel : nat) (cur : bool) (s : st) (id : Z) (x : aelem) (a : vacc) : vacc * Z :=
  if mem id (seenE a) then (a, 0) else
  let a1 := mkv (seenT a) (id :: seenE a) (vout a) in
  vbind (visit_refs fuel cur s (fun _ _ a' => (a', 0)) (accept_elem cur s x) a1)
        (fun a' => (emit (call_of_elem id x) a', 0)).

Definition visit_atom (fuel : nat) (cur : bool) (s : st) (x : aatom) (a : vacc) : vacc * Z :=
  vbind (visit_refs fuel cur s (visit_elem fuel cur s) (accept_atom cur s x) a)
        (fun a' => (emit (call_of_atom x) a', 0)).

Definition visit_fuel (s : st) : nat := S (length (terms s)).
Definition visit (cur : bool) (s : st) : list call * Z :=
  match accept_top cur s with
  | Ok xs =>
      let r := fold_left (fun acc x => vbind acc (visit_atom (visit_fuel s) cur s x)) xs (mkv [] [] [], 0) in
      (vout (fst r), snd r)
  | Err e => ([], e)
  end.

(* ---------- observation ---------- *)
Definition term_info (t : aterm) : list Z :=
  match t with
  | ANum _ => [Theory_t_Number; 0; 0; 0]
  | ASym _ => [Theory_t_Symbol; 0; 0; 0]
  | AComp b a => [Theory_t_Compound; Z.of_nat (length a); b2z (0 <=? b); b2z (b <? 0)]
  end.
Definition obs_term (s : st) (id : Z) : list Z :=
  [b2z (hasTerm s id); b2z (isNewTerm s id)] ++
  match getTerm s id with Ok t => enc_call (call_of_term id t) ++ term_info t | Err e => [- e] end.
Definition obs_elem (s : st) (id : Z) : list Z :=
  [b2z (hasElement s id); b2z (isNewElement s id)] ++
  match getElement s id with Ok x => enc_call (call_of_elem id x) | Err e => [- e] end.
Definition obs_atoms (s : st) : list Z :=
  match atom_views (hp s) (atoms s) with
  | Ok xs => flat_map (fun x => enc_call (call_of_atom x)) xs
  | Err e => [- e]
  end.
(* The public iterator adaptors (IteratorAdaptor = TheoryElementIterator / TheoryTermIterator of theory_data.h) are a pointer into
   a stored id list plus the store: a walk over them (prefix / postfix ++ from begin, prefix / postfix -- from end, *, ->, ==, !=,
   copy, swap, std algorithms) yields exactly the stored ids in order / in reverse, each dereferenced through getElement / getTerm.
   The harness performs every such walk over every item it reads back and over every item handed to its visitor, compares it with the
   direct begin()/size() view and prints the mask of the walks that differ: in the model that mask is the constant 0. *)
Definition adaptor_walk_mask (s : st) : Z := 0.
Definition dump (probes : list Z) (s : st) : list Z :=
  flat_map (fun p => obs_term s p ++ obs_elem s p) probes ++
  [numAtoms s] ++ obs_atoms s ++ [fatom s; live (hp s); adaptor_walk_mask s].

(* ---------- cases ---------- *)
Inductive cop := CMut (o : op) | CVisit (cur : bool).

Definition run_cop (probes : list Z) (s : st) (c : cop) : list Z * st :=
  match c with
  | CMut o => let '(e, s') := step s o in (e :: dump probes s', s')
  | CVisit cur => let '(cs, e) := visit cur s in (e :: enc_calls cs ++ [0] ++ dump probes s, s)
  end.
Fixpoint run_cops (probes : list Z) (s : st) (l : list cop) : list Z * st :=
  match l with
  | [] => ([], s)
  | c :: r => let '(o1, s1) := run_cop probes s c in let '(o2, s2) := run_cops probes s1 r in (o1 ++ o2, s2)
  end.

Definition u32 (x : Z) : Z := x mod 4294967296.
Definition pred_mod (m r : Z) (x : aatom) : bool := (a_atom x) mod (Z.max 1 m) =? r.

Fixpoint decode (fuel : nat) (l : list Z) : list cop :=
  match fuel with
  | O => []
  | S f =>
      match l with
      | 1 :: id :: n :: r => CMut (OAddNum (u32 id) (wrap32 n)) :: decode f r
      | 2 :: id :: r => let '(b, r1) := take_list r in CMut (OAddSym (u32 id) b) :: decode f r1
      | 3 :: id :: r => let '(b, r1) := take_list r in CMut (OAddSym (u32 id) (cut0 b)) :: decode f r1   (* const char* overload: strlen *)
      | 4 :: id :: fn :: r => let '(a, r1) := take_list r in CMut (OAddComp (u32 id) (wrap32 (u32 fn)) (map u32 a)) :: decode f r1
      | 5 :: id :: ty :: r => let '(a, r1) := take_list r in CMut (OAddComp (u32 id) (wrap32 ty) (map u32 a)) :: decode f r1
      | 6 :: id :: r => CMut (ORemoveTerm (u32 id)) :: decode f r
      | 7 :: id :: r => let '(t, r1) := take_list r in
                        match r1 with c :: r2 => CMut (OAddElem (u32 id) (map u32 t) (u32 c)) :: decode f r2 | [] => [] end
      | 8 :: id :: c :: r => CMut (OSetCond (u32 id) (u32 c)) :: decode f r
      | 9 :: a :: t :: r => let '(e, r1) := take_list r in CMut (OAddAtom (u32 a) (u32 t) (map u32 e) None) :: decode f r1
      | 10 :: a :: t :: r => let '(e, r1) := take_list r in
                        match r1 with o :: rh :: r2 => CMut (OAddAtom (u32 a) (u32 t) (map u32 e) (Some (u32 o, u32 rh))) :: decode f r2 | _ => [] end
      | 11 :: r => CMut OUpdate :: decode f r
      | 12 :: r => CMut OReset :: decode f r
      | 13 :: m :: k :: r => CMut (OFilter (pred_mod m k)) :: decode f r
      | 14 :: m :: r => CVisit (negb (m =? 0)) :: decode f r
      | _ => []
      end
  end.

(* case = np probe_1 .. probe_np  ops...;  the observation ends with the result of the destructor's reset()
   and the number of cells still live afterwards *)
Definition run_case (c : list Z) : list Z :=
  let '(probes, r) := take_list c in
  let '(o, s) := run_cops (map u32 probes) init (decode (length r) r) in
  let '(e, s') := reset s in
  o ++ [e; live (hp s')].
