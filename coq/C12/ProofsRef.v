(* C12 - abstraction function and refinement: every operation commutes with abs, keeps the ledger invariant
   and never faults. *)
Require Import V.Lib.Base V.Lib.Calls V.Gen.Consts V.Gen.Consts_C12 V.C12.Spec V.C12.Model V.C12.ProofsBase V.C12.ProofsInv.
Require Import ZifyBool.
Local Open Scope Z_scope.
Ltac Zify.zify_post_hook ::= Z.div_mod_to_equations.

(* ---------- the observable table of a concrete state ---------- *)
Definition wview (h : heap) (w : Z) : option aterm := match view_word h w with Ok t => Some t | Err _ => None end.
Definition eview (h : heap) (p : Z) : option aelem :=
  match hfind h p with Some (OElem ts c) => Some (mke ts (cond_of c)) | _ => None end.
Definition aview (h : heap) (p : Z) : aatom :=
  match hfind h p with Some (OAtom a t es g) => mka a t es g | _ => mka 0 0 [] None end.

Definition vT (s : st) (id : Z) : option aterm := match getTerm s id with Ok t => Some t | Err _ => None end.
Definition vE (s : st) (id : Z) : option aelem := match getElement s id with Ok e => Some e | Err _ => None end.
Definition vA (s : st) : list aatom := match atom_views (hp s) (atoms s) with Ok l => l | Err _ => [] end.
Definition abs (s : st) : ast := mks (vT s) (nterms s) (vE s) (nelems s) (vA s) (fatom s) (fterm s) (felem s).

Lemma vT_char s id : Inv s -> vT s id = match aget (terms s) id with Some w => wview (hp s) w | None => None end.
Proof.
  intro I. unfold vT, getTerm. destruct (aget (terms s) id) as [w|] eqn:E.
  - assert (H : hasTerm s id = true) by (apply hasTerm_iff; eauto). rewrite H. unfold tread. rewrite E. reflexivity.
  - destruct (hasTerm s id) eqn:H; [|reflexivity]. apply hasTerm_iff in H; [|exact I]. destruct H as [w H]. congruence.
Qed.

Lemma vE_char s id : Inv s -> vE s id = match aget (elems s) id with Some p => eview (hp s) p | None => None end.
Proof.
  intro I. unfold vE, getElement, eview. destruct (aget (elems s) id) as [p|] eqn:E.
  - assert (H : hasElement s id = true) by (apply hasElement_iff; eauto). rewrite H. unfold eread. rewrite E.
    destruct (hfind (hp s) p) as [[| |ts c|]|]; reflexivity.
  - destruct (hasElement s id) eqn:H; [|reflexivity]. apply hasElement_iff in H; [|exact I]. destruct H as [w H]. congruence.
Qed.

Lemma atom_views_ok h : forall l,
  (forall p, In p l -> exists a t es g, hfind h p = Some (OAtom a t es g)) -> atom_views h l = Ok (map (aview h) l).
Proof.
  induction l as [|p l IH]; simpl; intro H; [reflexivity|].
  destruct (H p (or_introl eq_refl)) as [a [t [es [g Hp]]]].
  unfold atom_view, aview. rewrite Hp. rewrite IH by (intros; apply H; now right). reflexivity.
Qed.

Lemma vA_char s : Inv s -> vA s = map (aview (hp s)) (atoms s).
Proof. intro I. unfold vA. rewrite atom_views_ok; [reflexivity|apply (I_adom s I)]. Qed.

Lemma wview_some h w : word_ok h w -> exists t, wview h w = Some t.
Proof.
  intros [_ [T|[[T [b Hb]]|[T [b [a Hb]]]]]]; unfold wview, view_word; rewrite T.
  - eexists. reflexivity.
  - change (Theory_t_Symbol =? Theory_t_Number) with false. change (Theory_t_Symbol =? Theory_t_Symbol) with true. simpl. rewrite Hb. eauto.
  - change (Theory_t_Compound =? Theory_t_Number) with false. change (Theory_t_Compound =? Theory_t_Symbol) with false.
    change (Theory_t_Compound =? Theory_t_Compound) with true. simpl. rewrite Hb. eauto.
Qed.

Lemma wview_frame h h' w : (is_ptr w -> hfind h' (getPtr w) = hfind h (getPtr w)) -> wview h' w = wview h w.
Proof.
  intro F. unfold wview, view_word.
  destruct (Z.eqb_spec (wtype w) Theory_t_Number) as [E0|E0]; [reflexivity|].
  destruct (Z.eqb_spec (wtype w) Theory_t_Symbol) as [E1|E1]; [rewrite F by (left; exact E1); reflexivity|].
  destruct (Z.eqb_spec (wtype w) Theory_t_Compound) as [E2|E2]; [rewrite F by (right; exact E2); reflexivity|reflexivity].
Qed.

Lemma has_term_abs s id : Inv s -> s_has_term (abs s) id = hasTerm s id.
Proof.
  intro I. unfold s_has_term. simpl. rewrite vT_char by exact I.
  destruct (aget (terms s) id) as [w|] eqn:E.
  - destruct (I_tdom s I _ _ E) as [_ Okw]. destruct (wview_some _ _ Okw) as [t Ht]. rewrite Ht. simpl.
    symmetry. apply hasTerm_iff; eauto.
  - simpl. symmetry. destruct (hasTerm s id) eqn:H; [|reflexivity]. apply hasTerm_iff in H; [|exact I]. destruct H. congruence.
Qed.

Lemma new_term_abs s id : Inv s -> s_new_term (abs s) id = isNewTerm s id.
Proof. intro I. unfold s_new_term, isNewTerm. rewrite has_term_abs by exact I. reflexivity. Qed.

Lemma has_elem_abs s id : Inv s -> s_has_elem (abs s) id = hasElement s id.
Proof.
  intro I. unfold s_has_elem. simpl. rewrite vE_char by exact I.
  destruct (aget (elems s) id) as [p|] eqn:E.
  - destruct (I_edom s I _ _ E) as [_ [ts [c Hp]]]. unfold eview. rewrite Hp. simpl. symmetry. apply hasElement_iff; eauto.
  - simpl. symmetry. destruct (hasElement s id) eqn:H; [|reflexivity]. apply hasElement_iff in H; [|exact I]. destruct H. congruence.
Qed.

Lemma new_elem_abs s id : Inv s -> s_new_elem (abs s) id = isNewElement s id.
Proof. intro I. unfold s_new_elem, isNewElement. rewrite has_elem_abs by exact I. reflexivity. Qed.

(* ---------- frame: what a heap change outside D leaves untouched ---------- *)
Definition heap_kept (D : Z -> Prop) (h h' : heap) : Prop :=
  forall b o, hfind h b = Some o -> ~ D b -> hfind h' b = Some o.

Lemma term_view_kept D s h' j w :
  Inv s -> heap_kept D (hp s) h' -> aget (terms s) j = Some w -> (is_ptr w -> ~ D (getPtr w)) -> wview h' w = wview (hp s) w.
Proof.
  intros I K H ND. apply wview_frame. intro P. destruct (I_tdom s I _ _ H) as [_ Okw].
  destruct (word_ok_ptr_live _ _ Okw P) as [o [Ho _]]. rewrite Ho. apply K; auto.
Qed.
Lemma elem_view_kept D s h' j p :
  Inv s -> heap_kept D (hp s) h' -> aget (elems s) j = Some p -> ~ D p -> eview h' p = eview (hp s) p.
Proof.
  intros I K H ND. destruct (I_edom s I _ _ H) as [_ [ts [c Hp]]]. unfold eview. rewrite Hp. rewrite (K _ _ Hp ND). reflexivity.
Qed.
Lemma atom_view_kept D s h' p :
  Inv s -> heap_kept D (hp s) h' -> In p (atoms s) -> ~ D p -> aview h' p = aview (hp s) p.
Proof.
  intros I K H ND. destruct (I_adom s I _ H) as [a [t [es [g Hp]]]]. unfold aview. rewrite Hp. rewrite (K _ _ Hp ND). reflexivity.
Qed.

Lemma kept_alloc s o : Inv s -> heap_kept (fun _ => False) (hp s) (snd (halloc o (hp s))).
Proof. intros I b ob Hb _. rewrite hfind_alloc. rewrite (live_ne_next s b ob I Hb). exact Hb. Qed.

Lemma kept_trans D h1 h2 h3 : heap_kept D h1 h2 -> heap_kept (fun _ => False) h2 h3 -> heap_kept D h1 h3.
Proof. intros A B b o Hb ND. apply B; [|tauto]. now apply A. Qed.

(* ---------- removeTerm / setTerm ---------- *)
Definition same_rest (s s1 : st) : Prop :=
  elems s1 = elems s /\ nelems s1 = nelems s /\ atoms s1 = atoms s /\ fatom s1 = fatom s /\ fterm s1 = fterm s /\ felem s1 = felem s.

Definition freed_by (s : st) (id : Z) (b : Z) : Prop :=
  exists w, aget (terms s) id = Some w /\ is_ptr w /\ getPtr w = b.

Lemma removeTerm_spec s id :
  Inv s ->
  exists s1, removeTerm id s = Ok s1 /\ Inv s1 /\ terms s1 = adel (terms s) id /\ nterms s1 = nterms s /\
    same_rest s s1 /\ next (hp s1) = next (hp s) /\ heap_kept (freed_by s id) (hp s) (hp s1).
Proof.
  intro I. unfold removeTerm. destruct (hasTerm s id) eqn:H.
  - apply hasTerm_iff in H; [|exact I]. destruct H as [w Hw]. unfold tread. rewrite Hw.
    destruct (P_rm_t s id w I Hw) as [h [D [N [F I1]]]]. rewrite D. eexists. split; [reflexivity|].
    split; [exact I1|]. simpl. repeat split; auto.
    intros b o Hb ND. rewrite F. destruct (is_ptr_dec w) as [P|P]; [|exact Hb].
    destruct (Z.eqb_spec (getPtr w) b) as [E|E]; [|exact Hb]. exfalso. apply ND. exists w. auto.
  - exists s. split; [reflexivity|]. split; [exact I|]. rewrite adel_absent by (now apply hasTerm_false).
    repeat split; auto. intros b o Hb _. exact Hb.
Qed.

Lemma setTerm_spec s id :
  Inv s -> 0 <= id ->
  (isNewTerm s id = true /\ setTerm id s = Err EC_REDEF_TERM) \/
  (isNewTerm s id = false /\ exists s1, setTerm id s = Ok s1 /\ Inv s1 /\ terms s1 = adel (terms s) id /\
     nterms s1 = Z.max (nterms s) (id + 1) /\ same_rest s s1 /\ next (hp s1) = next (hp s) /\
     heap_kept (freed_by s id) (hp s) (hp s1)).
Proof.
  intros I Hid. unfold setTerm. destruct (hasTerm s id) eqn:H; simpl.
  - destruct (isNewTerm s id) eqn:Hn; [left; auto|]. right. split; [reflexivity|].
    destruct (removeTerm_spec s id I) as [s1 [E [I1 [T [N R]]]]]. exists s1. split; [exact E|]. split; [exact I1|].
    split; [exact T|]. split; [|exact R].
    apply hasTerm_iff in H; [|exact I]. destruct H as [w Hw]. destruct (I_tdom s I _ _ Hw) as [Rg _]. lia.
  - right. split; [unfold isNewTerm; rewrite H; reflexivity|]. eexists. split; [reflexivity|].
    split; [apply P_grow_t; [exact I|lia]|]. simpl. rewrite adel_absent by (now apply hasTerm_false).
    repeat split; auto. intros b o Hb _. exact Hb.
Qed.

(* views after deleting / storing a term slot *)
Lemma views_adel s s1 id :
  Inv s -> Inv s1 -> terms s1 = adel (terms s) id -> same_rest s s1 -> heap_kept (freed_by s id) (hp s) (hp s1) ->
  (forall j, vT s1 j = if j =? id then None else vT s j) /\ (forall j, vE s1 j = vE s j) /\ vA s1 = vA s.
Proof.
  intros I I1 T [Ee [_ [Ea _]]] K. split; [|split].
  - intro j. rewrite (vT_char s1 j I1), T, aget_adel. rewrite (Z.eqb_sym j id).
    destruct (Z.eqb_spec id j) as [E|E]; [reflexivity|]. rewrite (vT_char s j I).
    destruct (aget (terms s) j) as [wj|] eqn:Hj; [|reflexivity].
    eapply term_view_kept; eauto. intros Pj [w [Hw [Pw G]]]. apply E. exact (I_tinj s I id j w wj Hw Hj Pw Pj G).
  - intro j. rewrite (vE_char s1 j I1), (vE_char s j I), Ee.
    destruct (aget (elems s) j) as [p|] eqn:Hj; [|reflexivity].
    eapply elem_view_kept; eauto. intros [w [Hw [Pw G]]]. exact (term_elem_disjoint s id w j p I Hw Pw Hj G).
  - rewrite (vA_char s1 I1), (vA_char s I), Ea. apply map_ext_in. intros p Hp.
    eapply atom_view_kept; eauto. intros [w [Hw [Pw G]]]. exact (term_atom_disjoint s id w p I Hw Pw Hp G).
Qed.

Lemma views_aset s1 s' id w t :
  Inv s1 -> Inv s' -> terms s' = aset (terms s1) id w -> elems s' = elems s1 -> atoms s' = atoms s1 ->
  heap_kept (fun _ => False) (hp s1) (hp s') -> wview (hp s') w = Some t ->
  (forall j, vT s' j = if j =? id then Some t else vT s1 j) /\ (forall j, vE s' j = vE s1 j) /\ vA s' = vA s1.
Proof.
  intros I1 I' T Ee Ea K W. split; [|split].
  - intro j. rewrite (vT_char s' j I'), T, aget_aset. rewrite (Z.eqb_sym j id).
    destruct (Z.eqb_spec id j) as [E|E]; [exact W|]. rewrite (vT_char s1 j I1).
    destruct (aget (terms s1) j) as [wj|] eqn:Hj; [|reflexivity]. eapply term_view_kept; eauto.
  - intro j. rewrite (vE_char s' j I'), (vE_char s1 j I1), Ee.
    destruct (aget (elems s1) j) as [p|] eqn:Hj; [|reflexivity]. eapply elem_view_kept; eauto.
  - rewrite (vA_char s' I'), (vA_char s1 I1), Ea. apply map_ext_in. intros p Hp. eapply atom_view_kept; eauto.
Qed.

(* ---------- well-formed operations ---------- *)
Definition wf_op (o : op) : Prop :=
  match o with
  | OAddNum id n => 0 <= id /\ -2147483648 <= n <= 2147483647
  | OAddSym id b => 0 <= id /\ nul_free b
  | OAddComp id _ _ => 0 <= id
  | OAddElem id _ _ => 0 <= id
  | OAddAtom a _ _ _ => 0 <= a < ATOM_MOD
  | _ => True
  end.

Definition refines (s : st) (o : op) : Prop :=
  fst (step s o) = fst (s_step (abs s) o) /\ aeq (abs (snd (step s o))) (snd (s_step (abs s) o)) /\
  Inv (snd (step s o)) /\ fst (step s o) <> EC_FAULT.

Lemma aeq_refl a : aeq a a.
Proof. unfold aeq. tauto. Qed.

Lemma ec_ne_fault : EC_REDEF_TERM <> EC_FAULT /\ EC_REDEF_ELEM <> EC_FAULT /\ EC_UNKNOWN_ELEM <> EC_FAULT /\
                    EC_NOT_DEFERRED <> EC_FAULT /\ 0 <> EC_FAULT.
Proof. unfold EC_REDEF_TERM, EC_REDEF_ELEM, EC_UNKNOWN_ELEM, EC_NOT_DEFERRED, EC_FAULT. lia. Qed.

(* storing a word into the slot prepared by setTerm *)
Lemma put_refines s s1 id h' w t :
  Inv s -> Inv s1 -> terms s1 = adel (terms s) id -> nterms s1 = Z.max (nterms s) (id + 1) -> same_rest s s1 ->
  heap_kept (freed_by s id) (hp s) (hp s1) ->
  heap_kept (fun _ => False) (hp s1) h' -> Inv (twrite (set_hp s1 h') id w) -> wview h' w = Some t ->
  aeq (abs (twrite (set_hp s1 h') id w))
      (mks (upd (vT s) id (Some t)) (Z.max (nterms s) (id + 1)) (vE s) (nelems s) (vA s) (fatom s) (fterm s) (felem s)).
Proof.
  intros I I1 T N R K K' I' W.
  destruct (views_adel s s1 id I I1 T R K) as [A1 [A2 A3]].
  destruct (views_aset s1 (twrite (set_hp s1 h') id w) id w t I1 I' eq_refl eq_refl eq_refl K' W) as [B1 [B2 B3]].
  destruct R as [_ [Rn [_ [Rfa [Rft Rfe]]]]].
  unfold aeq. simpl.
  split. { intro j. rewrite B1, A1. unfold upd. destruct (j =? id); reflexivity. }
  split. { congruence. }
  split. { intro j. rewrite B2, A2. reflexivity. }
  repeat split; congruence.
Qed.

Lemma refines_addNum s id n : Inv s -> wf_op (OAddNum id n) -> refines s (OAddNum id n).
Proof.
  intros I [Hid Hn]. unfold refines. simpl. unfold addTermNum, s_add_term. rewrite new_term_abs by exact I.
  destruct (setTerm_spec s id I Hid) as [[Hnew E]|[Hnew [s1 [E [I1 [T [N [R [Nx K]]]]]]]]]; rewrite E, Hnew; simpl.
  - split; [reflexivity|]. split; [apply aeq_refl|]. split; [exact I|apply ec_ne_fault].
  - assert (I' : Inv (twrite s1 id (mk_num n))).
    { apply P_put_num; [exact I1| |lia]. rewrite T, aget_adel, Z.eqb_refl. reflexivity. }
    split; [reflexivity|]. split; [|split; [exact I'|apply ec_ne_fault]].
    apply (put_refines s s1 id (hp s1) (mk_num n) (ANum n) I I1 T N R K).
    + intros b o Hb _. exact Hb.
    + exact I'.
    + unfold wview, view_word. cbv zeta. rewrite wtype_mk_num. change (Theory_t_Number =? Theory_t_Number) with true. cbv iota.
      rewrite number_mk_num by exact Hn. reflexivity.
Qed.

(* ---------- compound terms: allocate first, then setTerm; undo on refusal ---------- *)
Lemma hfree_alloc_commute k a o h :
  next h =? a = false ->
  hfree k a (snd (halloc o h)) = match hfree k a h with Ok h1 => Ok (snd (halloc o h1)) | Err e => Err e end.
Proof.
  intro Ne. unfold hfree. rewrite hfind_alloc, Ne. destruct (hfind h a) as [x|]; [|reflexivity].
  destruct (kind x =? k); [|reflexivity]. unfold halloc. simpl. rewrite Ne. reflexivity.
Qed.

Lemma destroy_word_alloc h w o :
  word_ok h w -> (forall b x, hfind h b = Some x -> next h =? b = false) ->
  destroy_word w (snd (halloc o h)) = match destroy_word w h with Ok h1 => Ok (snd (halloc o h1)) | Err e => Err e end.
Proof.
  intros [V Ty] Fresh. unfold destroy_word. rewrite V.
  destruct Ty as [T|[[T [b Hb]]|[T [b [a Hb]]]]]; rewrite T.
  - reflexivity.
  - change (Theory_t_Symbol =? Theory_t_Compound) with false. change (Theory_t_Symbol =? Theory_t_Symbol) with true. cbv iota.
    apply hfree_alloc_commute. eapply Fresh; eauto.
  - change (Theory_t_Compound =? Theory_t_Compound) with true. cbv iota.
    apply hfree_alloc_commute. eapply Fresh; eauto.
Qed.

Lemma setTerm_alloc s id o :
  Inv s ->
  setTerm id (set_hp s (snd (halloc o (hp s)))) =
  match setTerm id s with Ok s1 => Ok (set_hp s1 (snd (halloc o (hp s1)))) | Err e => Err e end.
Proof.
  intro I. unfold setTerm.
  change (hasTerm (set_hp s (snd (halloc o (hp s)))) id) with (hasTerm s id).
  change (isNewTerm (set_hp s (snd (halloc o (hp s)))) id) with (isNewTerm s id).
  destruct (hasTerm s id) eqn:H; cbn [negb]; [|reflexivity].
  destruct (isNewTerm s id); [reflexivity|].
  unfold removeTerm.
  change (hasTerm (set_hp s (snd (halloc o (hp s)))) id) with (hasTerm s id). rewrite H.
  change (tread (set_hp s (snd (halloc o (hp s)))) id) with (tread s id).
  change (hp (set_hp s (snd (halloc o (hp s))))) with (snd (halloc o (hp s))).
  apply hasTerm_iff in H; [|exact I]. destruct H as [w Hw]. unfold tread. rewrite Hw.
  destruct (I_tdom s I _ _ Hw) as [_ Okw].
  rewrite (destroy_word_alloc (hp s) w o Okw (fun b x Hb => live_ne_next s b x I Hb)).
  destruct (destroy_word w (hp s)); reflexivity.
Qed.

Lemma atom_views_cells h h' l : cells h = cells h' -> atom_views h l = atom_views h' l.
Proof.
  intro C. induction l as [|p l IH]; simpl; [reflexivity|].
  unfold atom_view, hfind. rewrite C, IH. reflexivity.
Qed.

Lemma abs_bump s n : aeq (abs (set_hp s (mkh (cells (hp s)) n))) (abs s).
Proof.
  unfold aeq. simpl. repeat split; try reflexivity.
  unfold vA. simpl. rewrite (atom_views_cells _ (hp s)) by reflexivity. reflexivity.
Qed.

Lemma addTermComp_unfold id base args s :
  addTermComp id base args s =
  match mk_ptr (next (hp s)) Theory_t_Compound with
  | Ok w =>
      match setTerm id (set_hp s (snd (halloc (OFunc base args) (hp s)))) with
      | Ok s1 => (0, twrite s1 id w)
      | Err e => match hfree K_FUNC (next (hp s)) (snd (halloc (OFunc base args) (hp s))) with
                 | Ok h' => (e, set_hp (set_hp s (snd (halloc (OFunc base args) (hp s)))) h')
                 | Err e' => (e', set_hp s (snd (halloc (OFunc base args) (hp s))))
                 end
      end
  | Err e => match hfree K_FUNC (next (hp s)) (snd (halloc (OFunc base args) (hp s))) with
             | Ok h' => (e, set_hp (set_hp s (snd (halloc (OFunc base args) (hp s)))) h')
             | Err e' => (e', set_hp s (snd (halloc (OFunc base args) (hp s))))
             end
  end.
Proof. reflexivity. Qed.

Lemma refines_addComp s id base args : Inv s -> wf_op (OAddComp id base args) -> refines s (OAddComp id base args).
Proof.
  intros I Hid. simpl in Hid. unfold refines. cbn [step s_step]. rewrite addTermComp_unfold. unfold s_add_term.
  rewrite new_term_abs by exact I.
  destruct (I_next s I) as [Np Na].
  rewrite (mk_ptr_ok _ _ Na). rewrite (setTerm_alloc s id _ I).
  destruct (setTerm_spec s id I Hid) as [[Hnew E]|[Hnew [s1 [E [I1 [T [N [R [Nx K]]]]]]]]]; rewrite E, Hnew.
  - change K_FUNC with (kind (OFunc base args)). rewrite (hfree_alloc _ _ (next_fresh s I)).
    cbn [fst snd].
    change (set_hp (set_hp s (snd (halloc (OFunc base args) (hp s)))) (mkh (cells (hp s)) (next (hp s) + ALIGN)))
      with (set_hp s (mkh (cells (hp s)) (next (hp s) + ALIGN))).
    split; [reflexivity|]. split; [apply abs_bump|]. split; [apply (P_bump s I)|apply ec_ne_fault].
  - cbn [fst snd]. rewrite <- Nx.
    assert (I' : Inv (twrite (set_hp s1 (snd (halloc (OFunc base args) (hp s1)))) id (next (hp s1) + Theory_t_Compound))).
    { apply P_put_ptr; [exact I1| |lia|right; eauto]. rewrite T, aget_adel, Z.eqb_refl. reflexivity. }
    split; [reflexivity|]. split; [|split; [exact I'|apply ec_ne_fault]].
    destruct (I_next s1 I1) as [Np1 Na1].
    apply (put_refines s s1 id _ _ (AComp base args) I I1 T N R K (kept_alloc s1 _ I1) I').
    unfold wview, view_word. cbv zeta. rewrite wtype_ptr by (auto; unfold Theory_t_Compound; lia).
    change (Theory_t_Compound =? Theory_t_Number) with false. change (Theory_t_Compound =? Theory_t_Symbol) with false.
    change (Theory_t_Compound =? Theory_t_Compound) with true. cbv iota.
    rewrite getPtr_ptr by (auto; unfold Theory_t_Compound; lia). rewrite hfind_alloc, Z.eqb_refl. reflexivity.
Qed.

(* ---------- symbol terms (after 4c76fde): the same order as compound terms - copy first, then setTerm, undo on refusal ---------- *)
Lemma addTermSym_unfold id b s :
  addTermSym id b s =
  match mk_ptr (next (hp s)) Theory_t_Symbol with
  | Ok w =>
      match setTerm id (set_hp s (snd (halloc (OSym b) (hp s)))) with
      | Ok s1 => (0, twrite s1 id w)
      | Err e => match hfree K_SYM (next (hp s)) (snd (halloc (OSym b) (hp s))) with
                 | Ok h' => (e, set_hp (set_hp s (snd (halloc (OSym b) (hp s)))) h')
                 | Err e' => (e', set_hp s (snd (halloc (OSym b) (hp s))))
                 end
      end
  | Err e => match hfree K_SYM (next (hp s)) (snd (halloc (OSym b) (hp s))) with
             | Ok h' => (e, set_hp (set_hp s (snd (halloc (OSym b) (hp s)))) h')
             | Err e' => (e', set_hp s (snd (halloc (OSym b) (hp s))))
             end
  end.
Proof. reflexivity. Qed.

Lemma refines_addSym s id b : Inv s -> wf_op (OAddSym id b) -> refines s (OAddSym id b).
Proof.
  intros I [Hid Hb]. unfold refines. cbn [step s_step]. rewrite addTermSym_unfold. unfold s_add_term.
  rewrite new_term_abs by exact I.
  destruct (I_next s I) as [Np Na].
  rewrite (mk_ptr_ok _ _ Na). rewrite (setTerm_alloc s id _ I).
  destruct (setTerm_spec s id I Hid) as [[Hnew E]|[Hnew [s1 [E [I1 [T [N [R [Nx K]]]]]]]]]; rewrite E, Hnew.
  - change K_SYM with (kind (OSym b)). rewrite (hfree_alloc _ _ (next_fresh s I)).
    cbn [fst snd].
    change (set_hp (set_hp s (snd (halloc (OSym b) (hp s)))) (mkh (cells (hp s)) (next (hp s) + ALIGN)))
      with (set_hp s (mkh (cells (hp s)) (next (hp s) + ALIGN))).
    split; [reflexivity|]. split; [apply abs_bump|]. split; [apply (P_bump s I)|apply ec_ne_fault].
  - cbn [fst snd]. rewrite <- Nx.
    assert (I' : Inv (twrite (set_hp s1 (snd (halloc (OSym b) (hp s1)))) id (next (hp s1) + Theory_t_Symbol))).
    { apply P_put_ptr; [exact I1| |lia|left; eauto]. rewrite T, aget_adel, Z.eqb_refl. reflexivity. }
    split; [reflexivity|]. split; [|split; [exact I'|apply ec_ne_fault]].
    destruct (I_next s1 I1) as [Np1 Na1].
    apply (put_refines s s1 id _ _ (ASym b) I I1 T N R K (kept_alloc s1 _ I1) I').
    unfold wview, view_word. cbv zeta. rewrite wtype_ptr by (auto; unfold Theory_t_Symbol; lia).
    change (Theory_t_Symbol =? Theory_t_Number) with false. change (Theory_t_Symbol =? Theory_t_Symbol) with true. cbv iota.
    rewrite getPtr_ptr by (auto; unfold Theory_t_Symbol; lia). rewrite hfind_alloc, Z.eqb_refl. rewrite cut0_nul_free by exact Hb. reflexivity.
Qed.

Lemma refines_removeTerm s id : Inv s -> refines s (ORemoveTerm id).
Proof.
  intros I. unfold refines. simpl. unfold removeTermOp.
  destruct (removeTerm_spec s id I) as [s1 [E [I1 [T [N [R [Nx K]]]]]]]. rewrite E. simpl.
  split; [reflexivity|]. split; [|split; [exact I1|apply ec_ne_fault]].
  destruct (views_adel s s1 id I I1 T R K) as [A1 [A2 A3]]. destruct R as [_ [Rn [_ [Rfa [Rft Rfe]]]]].
  unfold aeq. simpl.
  split. { intro j. rewrite A1. unfold upd. reflexivity. }
  split. { congruence. }
  split. { exact A2. }
  repeat split; congruence.
Qed.

(* ---------- operations that leave the term slots alone ---------- *)
Lemma views_kept s s' (D : Z -> Prop) :
  Inv s -> Inv s' -> terms s' = terms s -> heap_kept D (hp s) (hp s') ->
  (forall j w, aget (terms s) j = Some w -> is_ptr w -> ~ D (getPtr w)) ->
  forall j, vT s' j = vT s j.
Proof.
  intros I I' T K ND j. rewrite (vT_char s' j I'), (vT_char s j I), T.
  destruct (aget (terms s) j) as [w|] eqn:Hj; [|reflexivity]. eapply term_view_kept; eauto.
Qed.

Lemma views_elem_put s s' id a e :
  Inv s -> Inv s' -> terms s' = terms s -> atoms s' = atoms s ->
  (forall j, aget (elems s') j = if id =? j then Some a else aget (elems s) j) ->
  heap_kept (fun b => aget (elems s) id = Some b) (hp s) (hp s') -> eview (hp s') a = Some e ->
  (forall j, vT s' j = vT s j) /\ (forall j, vE s' j = if j =? id then Some e else vE s j) /\ vA s' = vA s.
Proof.
  intros I I' T A El K W. split; [|split].
  - eapply views_kept; eauto. intros j w Hj Pj Hd. exact (term_elem_disjoint s j w id _ I Hj Pj Hd eq_refl).
  - intro j. rewrite (vE_char s' j I'), El, (Z.eqb_sym j id). destruct (Z.eqb_spec id j) as [E|E]; [exact W|].
    rewrite (vE_char s j I). destruct (aget (elems s) j) as [p|] eqn:Hj; [|reflexivity].
    eapply elem_view_kept; eauto. intro Hd. apply E. exact (I_einj s I id j p Hd Hj).
  - rewrite (vA_char s' I'), (vA_char s I), A. apply map_ext_in. intros p Hp.
    eapply atom_view_kept; eauto. intro Hd. exact (elem_atom_disjoint s id p p I Hd Hp eq_refl).
Qed.

Lemma adel_adel {V} (m : list (Z * V)) k : adel (adel m k) k = adel m k.
Proof. apply adel_absent. rewrite aget_adel, Z.eqb_refl. reflexivity. Qed.

(* addElement (after fe607fc) allocates the new element BEFORE it frees the old one.  Fresh addresses are never live, so
   this is the same state as freeing first and allocating afterwards (addElement_seq, the order before the repair) *)
Definition addElement_seq (id : Z) (ts : list Z) (c : Z) (s : st) : Z * st :=
  let prep : R st :=
    if negb (hasElement s id) then Ok (set_elems s (elems s) (Z.max (nelems s) (id + 1)))
    else if isNewElement s id then Err EC_REDEF_ELEM
    else match hfree K_ELEM (eread s id) (hp s) with Ok h => Ok (set_hp s h) | Err e => Err e end in
  match prep with
  | Ok s1 =>
      let '(a, h) := halloc (OElem ts (if c =? 0 then None else Some c)) (hp s1) in
      (0, set_hp (set_elems s1 (aset (elems s1) id a) (nelems s1)) h)
  | Err e => (e, s)
  end.

Lemma addElement_seq_eq s id ts c : Inv s -> addElement id ts c s = addElement_seq id ts c s.
Proof.
  intro I. unfold addElement, addElement_seq.
  set (o := OElem ts (if c =? 0 then None else Some c)).
  destruct (hasElement s id) eqn:H; cbn [negb].
  - destruct (isNewElement s id); [reflexivity|].
    pose proof H as H0. unfold hasElement in H0. apply andb_true_iff in H0. destruct H0 as [_ Hnz].
    apply negb_true_iff in Hnz. rewrite Hnz.
    apply hasElement_iff in H; [|exact I]. destruct H as [p Hp]. unfold eread in *. rewrite Hp in *.
    destruct (I_edom s I _ _ Hp) as [Rg [ts0 [co Hc]]].
    destruct (P_rm_e s id p I Hp) as [h1 [F [N1 _]]].
    unfold halloc at 1. cbn [fst snd].
    change (mkh ((next (hp s), o) :: cells (hp s)) (next (hp s) + ALIGN)) with (snd (halloc o (hp s))).
    rewrite (hfree_alloc_commute K_ELEM p o (hp s) (live_ne_next s p _ I Hc)). rewrite F.
    unfold halloc. cbn [hp set_hp set_elems elems nelems terms nterms atoms fatom fterm felem fst snd]. rewrite N1. reflexivity.
  - assert (Ha : aget (elems s) id = None) by (now apply hasElement_false).
    unfold eread. cbn [elems set_elems]. rewrite Ha. change (0 =? 0) with true. cbv iota.
    destruct (halloc o (hp (set_elems s (elems s) (Z.max (nelems s) (id + 1))))) as [a h]. reflexivity.
Qed.

Lemma refines_addElem s id ts c : Inv s -> wf_op (OAddElem id ts c) -> refines s (OAddElem id ts c).
Proof.
  intros I Hid. simpl in Hid. unfold refines. cbn [step s_step]. rewrite (addElement_seq_eq s id ts c I). unfold addElement_seq. rewrite new_elem_abs by exact I.
  set (o := OElem ts (if c =? 0 then None else Some c)).
  assert (EV : forall h, eview (snd (halloc o h)) (next h) = Some (mke ts c)).
  { intro h. unfold eview. rewrite hfind_alloc, Z.eqb_refl. unfold o. simpl. destruct (Z.eqb_spec c 0); simpl; congruence. }
  destruct (hasElement s id) eqn:H; cbn [negb].
  - destruct (isNewElement s id) eqn:Hn.
    + cbn [fst snd]. split; [reflexivity|]. split; [apply aeq_refl|]. split; [exact I|apply ec_ne_fault].
    + apply hasElement_iff in H; [|exact I]. destruct H as [p Hp]. unfold eread. rewrite Hp.
      destruct (P_rm_e s id p I Hp) as [h1 [F [N1 [FH I1]]]]. rewrite F.
      change (fst (halloc o (hp (set_hp s h1)))) with (next h1).
      assert (Eq : (let '(a, h) := halloc o (hp (set_hp s h1)) in
                    (0, set_hp (set_elems (set_hp s h1) (aset (elems (set_hp s h1)) id a) (nelems (set_hp s h1))) h)) =
                   (0, set_hp (set_elems (set_hp (set_elems s (adel (elems s) id) (nelems s)) h1)
                                 (aset (adel (elems s) id) id (next h1)) (nelems s)) (snd (halloc o h1)))).
      { unfold halloc. cbn [hp set_hp set_elems elems nelems terms nterms atoms fatom fterm felem snd]. unfold aset. rewrite adel_adel. reflexivity. }
      rewrite Eq. clear Eq. cbn [fst snd].
      set (srm := set_hp (set_elems s (adel (elems s) id) (nelems s)) h1) in *.
      assert (I' : Inv (set_hp (set_elems srm (aset (elems srm) id (next (hp srm))) (nelems srm)) (snd (halloc o (hp srm))))).
      { apply P_put_e; [exact I1| |]. unfold srm. cbn [elems set_hp set_elems]. rewrite aget_adel, Z.eqb_refl. reflexivity.
        unfold srm. cbn [nelems set_hp set_elems]. destruct (I_edom s I _ _ Hp). lia. }
      change (elems srm) with (adel (elems s) id) in I'. change (nelems srm) with (nelems s) in I'. change (hp srm) with h1 in I'.
      split; [reflexivity|]. split; [|split; [exact I'|apply ec_ne_fault]].
      destruct (views_elem_put s _ id (next h1) (mke ts c) I I' eq_refl eq_refl) as [A1 [A2 A3]].
      * intro j. cbn [elems set_hp set_elems]. rewrite aget_aset, aget_adel. destruct (id =? j); reflexivity.
      * intros b ob Hb Hd. cbn [hp set_hp]. rewrite hfind_alloc. rewrite FH.
        rewrite N1. rewrite (live_ne_next s b ob I Hb). destruct (Z.eqb_spec p b) as [E|E]; [subst; congruence|exact Hb].
      * apply EV.
      * destruct (I_edom s I _ _ Hp) as [Rg _].
        unfold aeq. cbn [abs T nT E nE A bA bT bE nterms nelems fatom fterm felem set_hp set_elems].
        split. { exact A1. } split. { reflexivity. }
        split. { intro j. rewrite A2. unfold upd. reflexivity. }
        split. { lia. } repeat split; auto.
  - assert (Hn : isNewElement s id = false) by (unfold isNewElement; rewrite H; reflexivity). rewrite Hn.
    assert (Ha : aget (elems s) id = None) by (now apply hasElement_false).
    set (s1 := set_elems s (elems s) (Z.max (nelems s) (id + 1))).
    assert (I1 : Inv s1) by (apply P_grow_e; [exact I|lia]).
    assert (I' : Inv (set_hp (set_elems s1 (aset (elems s1) id (next (hp s1))) (nelems s1)) (snd (halloc o (hp s1))))).
    { apply P_put_e; [exact I1|exact Ha|]. unfold s1. cbn [nelems set_elems]. lia. }
    change (let '(a, h) := halloc o (hp s1) in (0, set_hp (set_elems s1 (aset (elems s1) id a) (nelems s1)) h))
      with (0, set_hp (set_elems s1 (aset (elems s1) id (next (hp s1))) (nelems s1)) (snd (halloc o (hp s1)))).
    cbn [fst snd]. split; [reflexivity|]. split; [|split; [exact I'|apply ec_ne_fault]].
    destruct (views_elem_put s _ id (next (hp s)) (mke ts c) I I' eq_refl eq_refl) as [A1 [A2 A3]].
    * intro j. cbn [elems set_hp set_elems s1]. rewrite aget_aset. reflexivity.
    * intros b ob Hb _. cbn [hp set_hp set_elems s1]. rewrite hfind_alloc. rewrite (live_ne_next s b ob I Hb). exact Hb.
    * apply EV.
    * unfold aeq. cbn [abs T nT E nE A bA bT bE nterms nelems fatom fterm felem set_hp set_elems s1].
      split. { exact A1. } split. { reflexivity. }
      split. { intro j. rewrite A2. unfold upd. reflexivity. }
      repeat split; auto.
Qed.

Lemma refines_setCond s id c : Inv s -> refines s (OSetCond id c).
Proof.
  intros I. unfold refines. cbn [step s_step]. unfold setCondition.
  change (E (abs s) id) with (vE s id). unfold vE.
  unfold getElement. destruct (hasElement s id) eqn:H.
  - apply hasElement_iff in H; [|exact I]. destruct H as [p Hp]. unfold eread. rewrite Hp.
    destruct (I_edom s I _ _ Hp) as [Rg [ts [co Hc]]]. rewrite Hc. cbn [e_cond e_terms].
    destruct (cond_of co =? COND_DEFERRED) eqn:Hd; cbn [fst snd].
    + assert (I' : Inv (set_hp s (hwrite p (OElem ts (Some c)) (hp s)))) by (eapply P_setcond; eauto).
      split; [reflexivity|]. split; [|split; [exact I'|apply ec_ne_fault]].
      destruct (views_elem_put s _ id p (mke ts c) I I' eq_refl eq_refl) as [A1 [A2 A3]].
      * intro j. cbn [elems set_hp]. destruct (Z.eqb_spec id j); [subst; exact Hp|reflexivity].
      * intros b ob Hb Hdd. cbn [hp set_hp]. rewrite hfind_write. destruct (Z.eqb_spec p b) as [E|E]; [subst; congruence|exact Hb].
      * unfold eview. cbn [hp set_hp]. rewrite hfind_write, Z.eqb_refl. reflexivity.
      * unfold aeq. cbn [abs T nT E nE A bA bT bE nterms nelems fatom fterm felem set_hp].
        split. { exact A1. } split. { reflexivity. }
        split. { intro j. rewrite A2. unfold upd. reflexivity. }
        repeat split; auto.
    + split; [reflexivity|]. split; [apply aeq_refl|]. split; [exact I|apply ec_ne_fault].
  - cbn [fst snd]. split; [reflexivity|]. split; [apply aeq_refl|]. split; [exact I|apply ec_ne_fault].
Qed.

Lemma refines_addAtom s a t es g : Inv s -> wf_op (OAddAtom a t es g) -> refines s (OAddAtom a t es g).
Proof.
  intros I Ha. simpl in Ha. unfold refines. cbn [step s_step]. unfold addAtom.
  set (o := OAtom (a mod ATOM_MOD) t es g).
  change (let '(p, h) := halloc o (hp s) in (0, set_hp (set_atoms s (atoms s ++ [p])) h))
    with (0, set_hp (set_atoms s (atoms s ++ [next (hp s)])) (snd (halloc o (hp s)))).
  cbn [fst snd].
  assert (I' : Inv (set_hp (set_atoms s (atoms s ++ [next (hp s)])) (snd (halloc o (hp s))))) by (apply P_add_atom; exact I).
  split; [reflexivity|]. split; [|split; [exact I'|apply ec_ne_fault]].
  pose proof (kept_alloc s o I) as K.
  unfold aeq. cbn [abs T nT E nE A bA bT bE nterms nelems fatom fterm felem set_hp set_atoms].
  split. { eapply views_kept; eauto. }
  split. { reflexivity. }
  split. { intro j. rewrite (vE_char _ j I'), (vE_char s j I). cbn [elems hp set_hp set_atoms].
           destruct (aget (elems s) j) as [p|] eqn:Hj; [|reflexivity]. eapply elem_view_kept; eauto. }
  split. { reflexivity. }
  split. { rewrite (vA_char _ I'), (vA_char s I). cbn [atoms hp set_hp set_atoms]. rewrite map_app. f_equal.
           - apply map_ext_in. intros p Hp. eapply atom_view_kept; eauto.
           - cbn [map]. unfold aview. rewrite hfind_alloc, Z.eqb_refl. unfold o. rewrite Z.mod_small by exact Ha. reflexivity. }
  repeat split; auto.
Qed.

Lemma refines_update s : Inv s -> refines s OUpdate.
Proof.
  intros I. unfold refines. cbn [step s_step fst snd].
  split; [reflexivity|]. split; [|split; [apply P_update; exact I|apply ec_ne_fault]].
  unfold aeq. simpl. repeat split; try reflexivity.
  rewrite (vA_char s I), map_length. reflexivity.
Qed.

Lemma refines_reset s : Inv s -> refines s OReset.
Proof.
  intros I. unfold refines. cbn [step s_step].
  destruct (reset_ok s I) as [h [E [C N]]]. rewrite E. cbn [fst snd].
  destruct (I_next s I) as [Np Na].
  split; [reflexivity|]. split; [|split; [apply Inv_empty; congruence|apply ec_ne_fault]].
  unfold aeq. simpl. repeat split; try reflexivity.
  - intro j. unfold vT, getTerm, hasTerm, tread. simpl. rewrite andb_false_r. reflexivity.
  - intro j. unfold vE, getElement, hasElement, eread. simpl. rewrite andb_false_r. reflexivity.
Qed.

Lemma map_filter_comm {X Y} (f : X -> Y) (g : Y -> bool) (k : X -> bool) (l : list X) :
  (forall x, In x l -> k x = g (f x)) -> map f (filter k l) = filter g (map f l).
Proof.
  induction l as [|x l IH]; simpl; intro H; [reflexivity|].
  rewrite (H x (or_introl eq_refl)). destruct (g (f x)); simpl; rewrite IH by (intros; apply H; now right); reflexivity.
Qed.

Lemma refines_filter s p : Inv s -> refines s (OFilter p).
Proof.
  intros I. unfold refines. cbn [step s_step]. unfold filterOp.
  pose proof (I_frame s I) as Fr. destruct (Z.ltb_spec (numAtoms s) (fatom s)) as [L|L]; [lia|].
  destruct (P_filter s p I) as [h [D [G1 [G2 I']]]]. rewrite D. cbn [fst snd].
  split; [reflexivity|]. split; [|split; [exact I'|apply ec_ne_fault]].
  assert (K : heap_kept (fun b => In b (atoms s)) (hp s) h).
  { intros b o Hb Hn. rewrite G1; assumption. }
  unfold aeq. cbn [abs T nT E nE A bA bT bE nterms nelems fatom fterm felem set_hp set_atoms].
  split. { eapply views_kept; eauto. intros j w Hj Pj Hin. exact (term_atom_disjoint s j w _ I Hj Pj Hin eq_refl). }
  split. { reflexivity. }
  split. { intro j. rewrite (vE_char _ j I'), (vE_char s j I). cbn [elems hp set_hp set_atoms].
           destruct (aget (elems s) j) as [q|] eqn:Hj; [|reflexivity]. eapply elem_view_kept; eauto.
           intro Hin. exact (elem_atom_disjoint s j q q I Hj Hin eq_refl). }
  split. { reflexivity. }
  split.
  { rewrite (vA_char _ I'), (vA_char s I). cbn [atoms hp set_hp set_atoms].
    set (k := Z.to_nat (fatom s)).
    transitivity (map (aview (hp s)) (firstn k (atoms s) ++ filter (keepb p (hp s)) (skipn k (atoms s)))).
    - apply map_ext_in. intros q Hq. unfold aview. rewrite (G2 q Hq). reflexivity.
    - rewrite map_app, firstn_map, skipn_map. f_equal. apply map_filter_comm.
      intros q Hq. unfold keepb, atom_view, aview.
      assert (Hin : In q (atoms s)) by (rewrite <- (firstn_skipn k (atoms s)); apply in_or_app; now right).
      destruct (I_adom s I _ Hin) as [a [t [es [g Ha]]]]. rewrite Ha. reflexivity. }
  repeat split; auto.
Qed.

(* ---------- every operation ---------- *)
Theorem step_refines s o : Inv s -> wf_op o -> refines s o.
Proof.
  intros I W. destruct o.
  - now apply refines_addNum.
  - now apply refines_addSym.
  - now apply refines_addComp.
  - now apply refines_removeTerm.
  - now apply refines_addElem.
  - now apply refines_setCond.
  - now apply refines_addAtom.
  - now apply refines_update.
  - now apply refines_reset.
  - now apply refines_filter.
Qed.
