(* C12 - visiting: the accept() overloads computed on the plain table; exactness of each level;
   soundness and termination (fuel never exhausted) of the recursive printing visitor of the harness. *)
Require Import V.Lib.Base V.Lib.Calls V.Gen.Consts V.Gen.Consts_C12 V.C12.Spec V.C12.Model V.C12.ProofsBase V.C12.ProofsInv V.C12.ProofsRef V.C12.ProofsHist.
Require Import ZifyBool.
Local Open Scope Z_scope.

(* ---------- accept() on the abstract table ---------- *)
Fixpoint s_term_visits (cur : bool) (a : ast) (ids : list Z) : list vref * Z :=
  match ids with
  | [] => ([], 0)
  | id :: r =>
      if negb cur || s_new_term a id then
        match T a id with
        | Some t => let '(l, e) := s_term_visits cur a r in (VT id t :: l, e)
        | None => ([], EC_UNKNOWN_TERM)
        end
      else s_term_visits cur a r
  end.
Fixpoint s_elem_visits (cur : bool) (a : ast) (ids : list Z) : list vref * Z :=
  match ids with
  | [] => ([], 0)
  | id :: r =>
      if negb cur || s_new_elem a id then
        match E a id with
        | Some x => let '(l, e) := s_elem_visits cur a r in (VE id x :: l, e)
        | None => ([], EC_UNKNOWN_ELEM)
        end
      else s_elem_visits cur a r
  end.
Definition s_accept_term cur a t := s_term_visits cur a (term_refs t).
Definition s_accept_elem cur a (e : aelem) := s_term_visits cur a (e_terms e).
Definition s_accept_atom cur a (x : aatom) :=
  seq_visits (s_term_visits cur a [a_term x])
    (seq_visits (s_elem_visits cur a (a_elems x)) (s_term_visits cur a (atom_term_refs x))).
Definition s_accept_top (cur : bool) (a : ast) : list aatom := if cur then skipn (Z.to_nat (bA a)) (A a) else A a.

Lemma term_visits_abs cur s ids : Inv s -> term_visits cur s ids = s_term_visits cur (abs s) ids.
Proof.
  intro I. induction ids as [|id r IH]; simpl; [reflexivity|].
  unfold doVisitTerm. rewrite new_term_abs by exact I. rewrite (getTerm_abs s id I).
  change (T (abs s) id) with (vT s id). rewrite IH.
  destruct (negb cur || isNewTerm s id); [|reflexivity]. destruct (vT s id); reflexivity.
Qed.
Lemma elem_visits_abs cur s ids : Inv s -> elem_visits cur s ids = s_elem_visits cur (abs s) ids.
Proof.
  intro I. induction ids as [|id r IH]; simpl; [reflexivity|].
  unfold doVisitElem. rewrite new_elem_abs by exact I. rewrite (getElement_abs s id I).
  change (E (abs s) id) with (vE s id). rewrite IH.
  destruct (negb cur || isNewElement s id); [|reflexivity]. destruct (vE s id); reflexivity.
Qed.

Theorem accept_abs cur s : Inv s ->
  (forall t, accept_term cur s t = s_accept_term cur (abs s) t) /\
  (forall e, accept_elem cur s e = s_accept_elem cur (abs s) e) /\
  (forall x, accept_atom cur s x = s_accept_atom cur (abs s) x) /\
  accept_top cur s = Ok (s_accept_top cur (abs s)).
Proof.
  intro I. split; [|split; [|split]].
  - intro t. apply term_visits_abs. exact I.
  - intro e. apply term_visits_abs. exact I.
  - intro x. unfold accept_atom, s_accept_atom. rewrite !term_visits_abs, elem_visits_abs by exact I. reflexivity.
  - unfold accept_top, s_accept_top. simpl. rewrite (vA_char s I). destruct cur.
    + rewrite atom_views_ok.
      * rewrite skipn_map. reflexivity.
      * intros p Hp. apply (I_adom s I). rewrite <- (firstn_skipn (Z.to_nat (fatom s)) (atoms s)). apply in_or_app. now right.
    + apply atom_views_ok. apply (I_adom s I).
Qed.

(* ---------- exactness of one level ---------- *)
Definition vref_id (v : vref) : Z := match v with VT id _ => id | VE id _ => id end.
(* the visited reference is a stored item with its stored content (and new in current mode) *)
Definition vref_ok (cur : bool) (a : ast) (v : vref) : Prop :=
  match v with
  | VT id t => T a id = Some t /\ (cur = true -> s_new_term a id = true)
  | VE id x => E a id = Some x /\ (cur = true -> s_new_elem a id = true)
  end.

Lemma s_term_visits_sound cur a ids : Forall (vref_ok cur a) (fst (s_term_visits cur a ids)).
Proof.
  induction ids as [|id r IH]; simpl; [constructor|].
  destruct (negb cur || s_new_term a id) eqn:D; [|exact IH].
  destruct (T a id) as [t|] eqn:Ht; [|constructor].
  destruct (s_term_visits cur a r) as [l e]. simpl in *. constructor; [|exact IH].
  split; [exact Ht|]. intro C. subst cur. exact D.
Qed.
Lemma s_elem_visits_sound cur a ids : Forall (vref_ok cur a) (fst (s_elem_visits cur a ids)).
Proof.
  induction ids as [|id r IH]; simpl; [constructor|].
  destruct (negb cur || s_new_elem a id) eqn:D; [|exact IH].
  destruct (E a id) as [t|] eqn:Ht; [|constructor].
  destruct (s_elem_visits cur a r) as [l e]. simpl in *. constructor; [|exact IH].
  split; [exact Ht|]. intro C. subst cur. exact D.
Qed.

(* mode all: no error iff every referenced id is stored, and then exactly the references are visited, in order;
   an error is the logic_error of getTerm and the ids before the first unknown one have been visited *)
Lemma s_term_visits_all a ids :
  (snd (s_term_visits false a ids) = 0 <-> forall id, In id ids -> T a id <> None) /\
  (snd (s_term_visits false a ids) = 0 -> map vref_id (fst (s_term_visits false a ids)) = ids) /\
  (snd (s_term_visits false a ids) <> 0 ->
     snd (s_term_visits false a ids) = EC_UNKNOWN_TERM /\
     exists pre x post, ids = pre ++ x :: post /\ T a x = None /\ map vref_id (fst (s_term_visits false a ids)) = pre).
Proof.
  induction ids as [|id r [IH1 [IH2 IH3]]]; simpl.
  - split; [split; [intros _ id []|reflexivity]|]. split; [reflexivity|]. intro H. contradiction.
  - destruct (T a id) as [t|] eqn:Ht.
    + destruct (s_term_visits false a r) as [l e]. simpl in *. split; [|split].
      * rewrite IH1. split; [intros H x [Hx|Hx]; [subst; congruence|now apply H]|intros H x Hx; apply H; now right].
      * intro H. f_equal. now apply IH2.
      * intro H. destruct (IH3 H) as [E1 [pre [x [post [E2 [E3 E4]]]]]]. split; [exact E1|].
        exists (id :: pre), x, post. simpl. repeat split; congruence.
    + simpl. split; [|split].
      * split; [unfold EC_UNKNOWN_TERM; discriminate|]. intro H. exfalso. apply (H id); [now left|exact Ht].
      * unfold EC_UNKNOWN_TERM. discriminate.
      * intros _. split; [reflexivity|]. exists [], id, r. auto.
Qed.

(* mode current: never an error, exactly the new referenced ids are visited, in order *)
Lemma s_term_visits_cur a ids :
  snd (s_term_visits true a ids) = 0 /\ map vref_id (fst (s_term_visits true a ids)) = filter (s_new_term a) ids.
Proof.
  induction ids as [|id r [IH1 IH2]]; simpl; [auto|].
  destruct (s_new_term a id) eqn:N; [|auto].
  unfold s_new_term, s_has_term in N. destruct (T a id) as [t|] eqn:Ht; [|discriminate].
  destruct (s_term_visits true a r) as [l e]. simpl in *. split; [exact IH1|]. f_equal. exact IH2.
Qed.

Lemma s_elem_visits_all a ids :
  (snd (s_elem_visits false a ids) = 0 <-> forall id, In id ids -> E a id <> None) /\
  (snd (s_elem_visits false a ids) = 0 -> map vref_id (fst (s_elem_visits false a ids)) = ids) /\
  (snd (s_elem_visits false a ids) <> 0 -> snd (s_elem_visits false a ids) = EC_UNKNOWN_ELEM).
Proof.
  induction ids as [|id r [IH1 [IH2 IH3]]]; simpl.
  - split; [split; [intros _ id []|reflexivity]|]. split; [reflexivity|]. intro H. contradiction.
  - destruct (E a id) as [t|] eqn:Ht.
    + destruct (s_elem_visits false a r) as [l e]. simpl in *. split; [|split].
      * rewrite IH1. split; [intros H x [Hx|Hx]; [subst; congruence|now apply H]|intros H x Hx; apply H; now right].
      * intro H. f_equal. now apply IH2.
      * exact IH3.
    + simpl. split; [|split].
      * split; [unfold EC_UNKNOWN_ELEM; discriminate|]. intro H. exfalso. apply (H id); [now left|exact Ht].
      * unfold EC_UNKNOWN_ELEM. discriminate.
      * reflexivity.
Qed.
Lemma s_elem_visits_cur a ids :
  snd (s_elem_visits true a ids) = 0 /\ map vref_id (fst (s_elem_visits true a ids)) = filter (s_new_elem a) ids.
Proof.
  induction ids as [|id r [IH1 IH2]]; simpl; [auto|].
  destruct (s_new_elem a id) eqn:N; [|auto].
  unfold s_new_elem, s_has_elem in N. destruct (E a id) as [t|] eqn:Ht; [|discriminate].
  destruct (s_elem_visits true a r) as [l e]. simpl in *. split; [exact IH1|]. f_equal. exact IH2.
Qed.

(* the whole atom level *)
Lemma s_accept_atom_all_ok a x :
  T a (a_term x) <> None -> (forall e, In e (a_elems x) -> E a e <> None) -> (forall t, In t (atom_term_refs x) -> T a t <> None) ->
  snd (s_accept_atom false a x) = 0 /\
  map vref_id (fst (s_accept_atom false a x)) = a_term x :: a_elems x ++ atom_term_refs x.
Proof.
  intros H1 H2 H3. unfold s_accept_atom, seq_visits.
  destruct (s_term_visits_all a [a_term x]) as [[_ A1] [A2 _]].
  destruct (s_elem_visits_all a (a_elems x)) as [[_ B1] [B2 _]].
  destruct (s_term_visits_all a (atom_term_refs x)) as [[_ C1] [C2 _]].
  assert (E1 : snd (s_term_visits false a [a_term x]) = 0) by (apply A1; intros id [Hid|[]]; subst; exact H1).
  assert (E2 : snd (s_elem_visits false a (a_elems x)) = 0) by (apply B1; exact H2).
  assert (E3 : snd (s_term_visits false a (atom_term_refs x)) = 0) by (apply C1; exact H3).
  rewrite E1. cbn [Z.eqb fst snd]. rewrite E2. cbn [Z.eqb fst snd]. split; [exact E3|].
  rewrite !map_app, (A2 E1), (B2 E2), (C2 E3). reflexivity.
Qed.
Lemma s_accept_atom_cur a x :
  snd (s_accept_atom true a x) = 0 /\
  map vref_id (fst (s_accept_atom true a x)) =
    filter (s_new_term a) [a_term x] ++ filter (s_new_elem a) (a_elems x) ++ filter (s_new_term a) (atom_term_refs x).
Proof.
  unfold s_accept_atom, seq_visits.
  destruct (s_term_visits_cur a [a_term x]) as [E1 A2].
  destruct (s_elem_visits_cur a (a_elems x)) as [E2 B2].
  destruct (s_term_visits_cur a (atom_term_refs x)) as [E3 C2].
  rewrite E1. cbn [Z.eqb fst snd]. rewrite E2. cbn [Z.eqb fst snd]. split; [exact E3|].
  rewrite !map_app, A2, B2, C2. reflexivity.
Qed.
Lemma s_accept_atom_sound cur a x : Forall (vref_ok cur a) (fst (s_accept_atom cur a x)).
Proof.
  unfold s_accept_atom, seq_visits.
  pose proof (s_term_visits_sound cur a [a_term x]) as S1.
  pose proof (s_elem_visits_sound cur a (a_elems x)) as S2.
  pose proof (s_term_visits_sound cur a (atom_term_refs x)) as S3.
  destruct (snd (s_term_visits cur a [a_term x]) =? 0); [|exact S1]. cbn [fst snd].
  apply Forall_app. split; [exact S1|].
  destruct (snd (s_elem_visits cur a (a_elems x)) =? 0); [|exact S2]. cbn [fst snd].
  apply Forall_app. split; [exact S2|exact S3].
Qed.

(* error codes of accept are those of getTerm/getElement *)
Lemma s_term_visits_code cur a ids : snd (s_term_visits cur a ids) = 0 \/ snd (s_term_visits cur a ids) = EC_UNKNOWN_TERM.
Proof.
  induction ids as [|id r IH]; simpl; [now left|].
  destruct (negb cur || s_new_term a id); [|exact IH]. destruct (T a id); [|now right].
  destruct (s_term_visits cur a r). exact IH.
Qed.
Lemma s_elem_visits_code cur a ids : snd (s_elem_visits cur a ids) = 0 \/ snd (s_elem_visits cur a ids) = EC_UNKNOWN_ELEM.
Proof.
  induction ids as [|id r IH]; simpl; [now left|].
  destruct (negb cur || s_new_elem a id); [|exact IH]. destruct (E a id); [|now right].
  destruct (s_elem_visits cur a r). exact IH.
Qed.
Lemma seq_code x y : snd x <> EC_FAULT -> snd y <> EC_FAULT -> snd (seq_visits x y) <> EC_FAULT.
Proof. intros A B. unfold seq_visits. destruct (snd x =? 0); simpl; auto. Qed.
Lemma s_accept_atom_code cur a x : snd (s_accept_atom cur a x) <> EC_FAULT.
Proof.
  assert (TC : forall ids, snd (s_term_visits cur a ids) <> EC_FAULT).
  { intro ids. destruct (s_term_visits_code cur a ids) as [C|C]; rewrite C; unfold EC_UNKNOWN_TERM, EC_FAULT; discriminate. }
  assert (EC : forall ids, snd (s_elem_visits cur a ids) <> EC_FAULT).
  { intro ids. destruct (s_elem_visits_code cur a ids) as [C|C]; rewrite C; unfold EC_UNKNOWN_ELEM, EC_FAULT; discriminate. }
  unfold s_accept_atom. apply seq_code; [apply TC|]. apply seq_code; [apply EC|apply TC].
Qed.

(* ---------- the recursive visitor (harness scaffolding): soundness and termination ---------- *)
(* what an emitted call must be: the directive of a stored item (new / current-step in current mode) *)
Definition call_ok (cur : bool) (a : ast) (c : call) : Prop :=
  (exists id t, vref_ok cur a (VT id t) /\ c = call_of_term id t) \/
  (exists id e, vref_ok cur a (VE id e) /\ c = call_of_elem id e) \/
  (exists x, In x (s_accept_top cur a) /\ c = call_of_atom x).

Lemma mem_In x l : mem x l = true <-> In x l.
Proof.
  unfold mem. rewrite existsb_exists. split.
  - intros [y [H1 H2]]. apply Z.eqb_eq in H2. now subst.
  - intro H. exists x. split; [exact H|apply Z.eqb_refl].
Qed.

Section Visitor.
Variable cur : bool.
Variable s : st.
Hypothesis I : Inv s.
Let a := abs s.

(* accumulator invariant: marked term ids are distinct stored ids, everything emitted is ok *)
Definition acc_ok (v : vacc) : Prop :=
  NoDup (seenT v) /\ (forall x, In x (seenT v) -> In x (map fst (terms s))) /\ Forall (call_ok cur a) (vout v).

Lemma stored_key id t : T a id = Some t -> In id (map fst (terms s)).
Proof.
  unfold a. simpl. rewrite (vT_char s id I). destruct (aget (terms s) id) eqn:E; [|discriminate].
  intros _. eapply aget_Some_key; eauto.
Qed.

Lemma acc_len v : acc_ok v -> (length (seenT v) <= length (terms s))%nat.
Proof.
  intros [ND [Sub _]]. rewrite <- (map_length fst (terms s)). apply NoDup_incl_length; [exact ND|exact Sub].
Qed.

(* a step function over references keeps P and never faults -> so does the fold *)
Lemma fold_vbind {X} (P : vacc -> Prop) (f : vacc -> X -> vacc * Z) (Q : X -> Prop) :
  (forall v x, P v -> Q x -> P (fst (f v x)) /\ snd (f v x) <> EC_FAULT) ->
  forall refs v e, Forall Q refs -> P v -> e <> EC_FAULT ->
  P (fst (fold_left (fun acc x => vbind acc (fun a' => f a' x)) refs (v, e))) /\
  snd (fold_left (fun acc x => vbind acc (fun a' => f a' x)) refs (v, e)) <> EC_FAULT.
Proof.
  intros Hf. induction refs as [|x refs IH]; intros v e HQ HP He; cbn [fold_left]; [auto|].
  inversion HQ as [|? ? Qx Qr]; subst.
  destruct (vbind (v, e) (fun a' => f a' x)) as [v' e'] eqn:EV.
  unfold vbind in EV. cbn [fst snd] in EV.
  destruct (e =? 0).
  - destruct (Hf v x HP Qx) as [P1 F1]. rewrite EV in P1, F1. cbn [fst snd] in P1, F1. now apply IH.
  - inversion EV; subst. now apply IH.
Qed.

Lemma vbind_tail v2 e2 e c :
  (e2 = 0 /\ e = 0 /\ vbind (vbind (v2, e2) (fun a' => (a', e))) (fun a' => (emit c a', 0)) = (emit c v2, 0)) \/
  (e2 = 0 /\ e <> 0 /\ vbind (vbind (v2, e2) (fun a' => (a', e))) (fun a' => (emit c a', 0)) = (v2, e)) \/
  (e2 <> 0 /\ vbind (vbind (v2, e2) (fun a' => (a', e))) (fun a' => (emit c a', 0)) = (v2, e2)).
Proof.
  unfold vbind. cbn [fst snd]. destruct (Z.eqb_spec e2 0) as [A|A]; cbn [fst snd].
  - destruct (Z.eqb_spec e 0) as [B|B]; cbn [fst snd]; [left|right; left]; auto.
  - destruct (Z.eqb_spec e2 0); [contradiction|]. right; right. auto.
Qed.

Definition P_acc (n0 : nat) (se : list Z) (v : vacc) : Prop := acc_ok v /\ (n0 <= length (seenT v))%nat /\ seenE v = se.

Lemma visit_term_ok : forall f id t v,
  vref_ok cur a (VT id t) -> acc_ok v -> (length (terms s) < length (seenT v) + f)%nat ->
  let r := visit_term f cur s id t v in
  acc_ok (fst r) /\ snd r <> EC_FAULT /\ (length (seenT v) <= length (seenT (fst r)))%nat /\ seenE (fst r) = seenE v.
Proof.
  induction f as [|f IH]; intros id t v Hv Ha Hf.
  - exfalso. pose proof (acc_len v Ha). lia.
  - cbn [visit_term]. destruct (mem id (seenT v)) eqn:M.
    + cbn [fst snd]. repeat split; auto. apply Ha. apply Ha. apply Ha. unfold EC_FAULT. discriminate.
    + assert (Nin : ~ In id (seenT v)) by (intro H; apply mem_In in H; congruence).
      destruct Ha as [ND [Sub Out]]. destruct Hv as [Ht Hnew].
      set (v1 := mkv (id :: seenT v) (seenE v) (vout v)).
      assert (A1 : acc_ok v1).
      { split; [constructor; assumption|]. split; [|exact Out]. intros x [Hx|Hx]; [subst; eapply stored_key; eauto|now apply Sub]. }
      destruct (accept_abs cur s I) as [AT _]. rewrite (AT t). unfold s_accept_term.
      pose proof (s_term_visits_sound cur a (term_refs t)) as Snd.
      pose proof (s_term_visits_code cur a (term_refs t)) as Code.
      fold a. destruct (s_term_visits cur a (term_refs t)) as [refs e] eqn:ER. cbn [fst snd] in Snd, Code.
      pose proof (fold_vbind (P_acc (length (seenT v1)) (seenE v))
                    (fun a' x => match x with VT i t' => visit_term f cur s i t' a' | VE _ _ => (a', 0) end)
                    (vref_ok cur a)) as FV.
      assert (Step : forall w x, P_acc (length (seenT v1)) (seenE v) w -> vref_ok cur a x ->
                 P_acc (length (seenT v1)) (seenE v) (fst (match x with VT i t' => visit_term f cur s i t' w | VE _ _ => (w, 0) end)) /\
                 snd (match x with VT i t' => visit_term f cur s i t' w | VE _ _ => (w, 0) end) <> EC_FAULT).
      { intros w x [Wa [Wl We]] Hx. destruct x as [i t'|i x'].
        - assert (Lf : (length (terms s) < length (seenT w) + f)%nat) by (simpl in Wl; lia).
          destruct (IH i t' w Hx Wa Lf) as [R1 [R2 [R3 R4]]]. split; [|exact R2]. split; [exact R1|]. split; [lia|congruence].
        - cbn [fst snd]. split; [split; auto|unfold EC_FAULT; discriminate]. }
      specialize (FV Step refs v1 0 Snd).
      assert (P0 : P_acc (length (seenT v1)) (seenE v) v1) by (split; [exact A1|split; [lia|reflexivity]]).
      specialize (FV P0). assert (Z0 : 0 <> EC_FAULT) by (unfold EC_FAULT; discriminate). specialize (FV Z0). cbv zeta in FV.
      destruct (fold_left _ refs (v1, 0)) as [v2 e2]. cbn [fst snd] in FV. destruct FV as [[A2 [L2 S2]] F2].
      assert (Ee : e <> EC_FAULT) by (destruct Code as [C|C]; rewrite C; unfold EC_UNKNOWN_TERM, EC_FAULT; discriminate).
      destruct (vbind_tail v2 e2 e (call_of_term id t)) as [[E2 [E0 R]]|[[E2 [E0 R]]|[E2 R]]]; rewrite R; cbn [fst snd].
      * split; [|split; [unfold EC_FAULT; discriminate|split; [simpl in L2; simpl; lia|exact S2]]].
        destruct A2 as [B1 [B2 B3]]. split; [exact B1|]. split; [exact B2|]. simpl.
        apply Forall_app. split; [exact B3|]. constructor; [|constructor].
        left. exists id, t. split; [split; assumption|reflexivity].
      * split; [exact A2|]. split; [exact Ee|]. split; [simpl in L2; lia|exact S2].
      * split; [exact A2|]. split; [exact F2|]. split; [simpl in L2; lia|exact S2].
Qed.

Lemma visit_elem_ok f id x v :
  vref_ok cur a (VE id x) -> acc_ok v -> (length (terms s) < length (seenT v) + f)%nat ->
  let r := visit_elem f cur s id x v in
  acc_ok (fst r) /\ snd r <> EC_FAULT /\ (length (seenT v) <= length (seenT (fst r)))%nat.
Proof.
  intros Hv Ha Hf. unfold visit_elem. destruct (mem id (seenE v)).
  - cbn [fst snd]. split; [exact Ha|]. split; [unfold EC_FAULT; discriminate|lia].
  - set (v1 := mkv (seenT v) (id :: seenE v) (vout v)).
    assert (A1 : acc_ok v1) by (destruct Ha as [X [Y Z]]; split; [exact X|split; [exact Y|exact Z]]).
    destruct (accept_abs cur s I) as [_ [AE _]]. rewrite (AE x). unfold s_accept_elem, visit_refs.
    pose proof (s_term_visits_sound cur a (e_terms x)) as Snd.
    pose proof (s_term_visits_code cur a (e_terms x)) as Code.
    fold a. destruct (s_term_visits cur a (e_terms x)) as [refs e]. cbn [fst snd] in *.
    pose proof (fold_vbind (fun w => acc_ok w /\ (length (seenT v1) <= length (seenT w))%nat)
                  (fun a' y => match y with VT i t => visit_term f cur s i t a' | VE i x0 => (a', 0) end)
                  (vref_ok cur a)) as FV.
    assert (Step : forall w y, (acc_ok w /\ (length (seenT v1) <= length (seenT w))%nat) -> vref_ok cur a y ->
               (acc_ok (fst (match y with VT i t => visit_term f cur s i t w | VE i x0 => (w, 0) end)) /\
                (length (seenT v1) <= length (seenT (fst (match y with VT i t => visit_term f cur s i t w | VE i x0 => (w, 0%Z) end))))%nat) /\
               snd (match y with VT i t => visit_term f cur s i t w | VE i x0 => (w, 0) end) <> EC_FAULT).
    { intros w y [Wa Wl] Hy. destruct y as [i t|i x0].
      - assert (Lf : (length (terms s) < length (seenT w) + f)%nat) by (simpl in Wl; lia).
        destruct (visit_term_ok f i t w Hy Wa Lf) as [R1 [R2 [R3 _]]]. split; [split; [exact R1|lia]|exact R2].
      - cbn [fst snd]. split; [split; assumption|unfold EC_FAULT; discriminate]. }
    assert (Z0 : 0 <> EC_FAULT) by (unfold EC_FAULT; discriminate).
    specialize (FV Step refs v1 0 Snd (conj A1 (le_n _)) Z0). cbv zeta in FV.
    destruct (fold_left _ refs (v1, 0)) as [v2 e2]. cbn [fst snd] in FV. destruct FV as [[A2 L2] F2].
    assert (Ee : e <> EC_FAULT) by (destruct Code as [C|C]; rewrite C; unfold EC_UNKNOWN_TERM, EC_FAULT; discriminate).
    destruct (vbind_tail v2 e2 e (call_of_elem id x)) as [[E2 [E0 R]]|[[E2 [E0 R]]|[E2 R]]]; rewrite R; cbn [fst snd].
    + split; [|split; [unfold EC_FAULT; discriminate|simpl in L2; simpl; lia]].
      destruct A2 as [B1 [B2 B3]]. split; [exact B1|]. split; [exact B2|]. simpl.
      apply Forall_app. split; [exact B3|]. constructor; [|constructor].
      right; left. exists id, x. split; [exact Hv|reflexivity].
    + split; [exact A2|]. split; [exact Ee|simpl in L2; lia].
    + split; [exact A2|]. split; [exact F2|simpl in L2; lia].
Qed.

Lemma visit_atom_ok f x v :
  In x (s_accept_top cur a) -> acc_ok v -> (length (terms s) < length (seenT v) + f)%nat ->
  let r := visit_atom f cur s x v in
  acc_ok (fst r) /\ snd r <> EC_FAULT /\ (length (seenT v) <= length (seenT (fst r)))%nat.
Proof.
  intros Hx Ha Hf. unfold visit_atom, visit_refs.
  destruct (accept_abs cur s I) as [_ [_ [AA _]]]. rewrite (AA x).
  pose proof (s_accept_atom_sound cur a x) as Snd. pose proof (s_accept_atom_code cur a x) as Code.
  fold a. destruct (s_accept_atom cur a x) as [refs e]. cbn [fst snd] in *.
  pose proof (fold_vbind (fun w => acc_ok w /\ (length (seenT v) <= length (seenT w))%nat)
                (fun a' y => match y with VT i t => visit_term f cur s i t a' | VE i x0 => visit_elem f cur s i x0 a' end)
                (vref_ok cur a)) as FV.
  assert (Step : forall w y, (acc_ok w /\ (length (seenT v) <= length (seenT w))%nat) -> vref_ok cur a y ->
             (acc_ok (fst (match y with VT i t => visit_term f cur s i t w | VE i x0 => visit_elem f cur s i x0 w end)) /\
              (length (seenT v) <= length (seenT (fst (match y with VT i t => visit_term f cur s i t w | VE i x0 => visit_elem f cur s i x0 w end))))%nat) /\
             snd (match y with VT i t => visit_term f cur s i t w | VE i x0 => visit_elem f cur s i x0 w end) <> EC_FAULT).
  { intros w y [Wa Wl] Hy. assert (Lf : (length (terms s) < length (seenT w) + f)%nat) by lia. destruct y as [i t|i x0].
    - destruct (visit_term_ok f i t w Hy Wa Lf) as [R1 [R2 [R3 _]]]. split; [split; [exact R1|lia]|exact R2].
    - destruct (visit_elem_ok f i x0 w Hy Wa Lf) as [R1 [R2 R3]]. split; [split; [exact R1|lia]|exact R2]. }
  assert (Z0 : 0 <> EC_FAULT) by (unfold EC_FAULT; discriminate).
  specialize (FV Step refs v 0 Snd (conj Ha (le_n _)) Z0). cbv zeta in FV.
  destruct (fold_left _ refs (v, 0)) as [v2 e2]. cbn [fst snd] in FV. destruct FV as [[A2 L2] F2].
  destruct (vbind_tail v2 e2 e (call_of_atom x)) as [[E2 [E0 R]]|[[E2 [E0 R]]|[E2 R]]]; rewrite R; cbn [fst snd].
  - split; [|split; [unfold EC_FAULT; discriminate|simpl; lia]].
    destruct A2 as [B1 [B2 B3]]. split; [exact B1|]. split; [exact B2|]. simpl.
    apply Forall_app. split; [exact B3|]. constructor; [|constructor].
    right; right. exists x. split; [exact Hx|reflexivity].
  - split; [exact A2|]. split; [exact Code|lia].
  - split; [exact A2|]. split; [exact F2|lia].
Qed.

Theorem visit_sound : Forall (call_ok cur a) (fst (visit cur s)) /\ snd (visit cur s) <> EC_FAULT.
Proof.
  unfold visit. destruct (accept_abs cur s I) as [_ [_ [_ AT]]]. rewrite AT. fold a.
  pose proof (fold_vbind (fun w => acc_ok w) (fun a' x => visit_atom (visit_fuel s) cur s x a')
                (fun x => In x (s_accept_top cur a))) as FV.
  assert (Step : forall w x, acc_ok w -> In x (s_accept_top cur a) ->
             acc_ok (fst (visit_atom (visit_fuel s) cur s x w)) /\ snd (visit_atom (visit_fuel s) cur s x w) <> EC_FAULT).
  { intros w x Wa Hx. assert (Lf : (length (terms s) < length (seenT w) + visit_fuel s)%nat) by (unfold visit_fuel; lia).
    destruct (visit_atom_ok (visit_fuel s) x w Hx Wa Lf) as [R1 [R2 _]]. auto. }
  assert (Z0 : 0 <> EC_FAULT) by (unfold EC_FAULT; discriminate).
  assert (A0 : acc_ok (mkv [] [] [])) by (split; [constructor|split; [intros x []|constructor]]).
  assert (All : Forall (fun x => In x (s_accept_top cur a)) (s_accept_top cur a)) by (apply Forall_forall; auto).
  specialize (FV Step (s_accept_top cur a) (mkv [] [] []) 0 All A0 Z0). cbv zeta in FV.
  assert (EQ : fold_left (fun acc x => vbind acc (visit_atom (visit_fuel s) cur s x)) (s_accept_top cur a) (mkv [] [] [], 0) =
               fold_left (fun acc x => vbind acc (fun a' => visit_atom (visit_fuel s) cur s x a')) (s_accept_top cur a) (mkv [] [] [], 0)) by reflexivity.
  rewrite EQ. destruct (fold_left _ (s_accept_top cur a) (mkv [] [] [], 0)) as [v2 e2]. cbn [fst snd] in *.
  destruct FV as [[_ [_ B3]] F2]. auto.
Qed.
End Visitor.
