Require Import ExtrOcamlBasic.
Require Import V.C12.Model.
Extraction "model.ml" run_case.
