#!/usr/bin/env python3
"""Prepare a round of seeded-change requests: for every property a scratch worktree /tmp/seed-<P>-<round> of /repo (HEAD) and a
deliverables directory /tmp/seed-<P>-<round>-out holding PROPERTY.txt (the property text + what earlier rounds already tried + the
round's hints) and PROMPT.txt (the complete task for a fresh sub-agent, which gets nothing from /verif).
usage: tools/seed_prompts.py ROUND [PID...]        e.g.  tools/seed_prompts.py r7
The hints of a round are read from tools/seed_hints/<round>.txt (free text)."""
import sys, os, json, glob, subprocess, shutil
ROOT = os.path.dirname(os.path.dirname(os.path.abspath(__file__)))
REPO = '/repo'
rnd = sys.argv[1]
props = {}
for l in open(os.path.join(ROOT, 'properties.jsonl')):
    d = json.loads(l); props[d['id']] = d
pids = sys.argv[2:] or sorted(props)
hints = open(os.path.join(ROOT, 'tools', 'seed_hints', rnd + '.txt')).read()

PROMPT = """You are testing a verification effort by writing a realistic, subtle bug. You work ONLY in the scratch git worktree {wt} (a checkout of the C++ library potassco/libpotassco: parsing/writing/converting answer-set logic programs in aspif, smodels and text formats plus a command-line options framework). Do not look at or touch /verif or /repo; use no file outside {wt} and {out}. The property your change must break is in {out}/PROPERTY.txt - read it first (it also says what somebody else already tried: do something different in kind and location, and which kinds of mistake this round is looking for), then read the code it is anchored in.

Task: produce ONE change to the library sources (src/ potassco/ app/) that BREAKS that property while (a) still compiling and (b) still passing the library's existing test suite unchanged. Build and test with:  cd {wt} && cmake -G Ninja -S . -B _build -DLIB_POTASSCO_BUILD_TESTS=ON -DCMAKE_BUILD_TYPE=RelWithDebInfo >/dev/null && cmake --build _build >/dev/null && ctest --test-dir _build   (both test binaries must pass; first confirm they pass on the untouched tree).
The change must be the kind of mistake a maintainer could plausibly make (off-by-one, dropped or weakened check, wrong operator, swapped arguments/fields, a missing case, an optimisation that is wrong in a corner, two cooperating sites that each look fine alone) and it must need something SPECIFIC and RARE to manifest - a particular multi-step sequence of operations, an unusual but legal input, a boundary value, a particular position relative to an internal buffer/capacity, a particular interleaving - NOT something ordinary use would expose at once; prefer a change whose effect shows only several operations after the faulty one, or only for one value in a large range. Keep it small (a few lines). Do not touch tests, do not add instrumentation, do not change anything guarded by POTASSCO_LIBPOTASSCO_VERIF (macros POTASSCO_VERIF_YIELD in src/application.cpp expand to nothing unless that define is set; a demo for the signal property may define it and set the global hook `Potassco::verifYieldHook_g` to inject processSignal calls at interior points). The behaviour you break must be behaviour the ORIGINAL code gets right: your demo must pass on the original.

Deliver in {out}/: (1) patch.diff = `git -C {wt} diff` (sources only); (2) demo.cpp + demo.sh (builds it against the worktree's sources, e.g. `g++ -std=gnu++17 -w -I{wt} demo.cpp {wt}/src/*.cpp -o demo && ./demo`): exits 0 / prints PASS on the original code, exits non-zero / prints FAIL on the changed code, demonstrating the property violation through the public API (or the lpconvert tool where the property mentions it); (3) meta.json = {{"property": "{pid}", "summary": one sentence, "what_it_needs_to_manifest": ..., "files_changed": [...], "commands_run": [...], "tests_pass_with_change": bool, "demo_fails_with_change": bool, "demo_passes_without_change": bool}}. Verify all three claims yourself (test suite with the change; demo with and without the change via `git diff > p; git checkout -- .; ...; git apply p`). Leave the worktree WITH the change applied. Finish with a short summary.
"""

for pid in pids:
    tag = '%s-%s' % (pid, rnd)
    wt, out = '/tmp/seed-' + tag, '/tmp/seed-' + tag + '-out'
    subprocess.run(['git', '-C', REPO, 'worktree', 'remove', '--force', wt], stdout=subprocess.DEVNULL, stderr=subprocess.DEVNULL)
    shutil.rmtree(wt, ignore_errors=True); shutil.rmtree(out, ignore_errors=True)
    subprocess.run(['git', '-C', REPO, 'worktree', 'prune'])
    subprocess.run(['git', '-C', REPO, 'worktree', 'add', '--detach', '-q', wt, 'HEAD'], check=True)
    os.makedirs(out)
    p = props[pid]
    tried = []
    for mp in sorted(glob.glob(os.path.join(ROOT, 'seeded', pid + '*', 'meta.json'))):
        m = json.load(open(mp))
        if m.get('summary'):
            tried.append('- ' + ' '.join(str(m['summary']).split()))
    txt = ['PROPERTY %s: %s' % (pid, p['title']), '', p['statement'], '', 'Holds for: ' + p['quantifier']['text'], '',
           'Anchored in: ' + ', '.join(p['anchors']['files']), 'Mechanisms:']
    txt += ['  - %s (%s)' % (m['name'], m['where']) for m in p['anchors'].get('mechanism', [])]
    txt += ['', 'ALREADY TRIED by others (do something different in kind AND location):'] + (tried or ['- (nothing yet)'])
    txt += ['', 'THIS ROUND is looking for these kinds of mistake (pick one that fits the property; say in meta.json which):', hints]
    open(os.path.join(out, 'PROPERTY.txt'), 'w').write('\n'.join(txt) + '\n')
    open(os.path.join(out, 'PROMPT.txt'), 'w').write(PROMPT.format(wt=wt, out=out, pid=pid))
    print(tag, 'prepared;', len(tried), 'earlier attempts listed')
