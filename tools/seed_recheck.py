#!/usr/bin/env python3
"""Re-run the current checks against a seeded change already filed under /verif/seeded/<tag>/.
usage: tools/seed_recheck.py TAG [TAG...]      e.g.  tools/seed_recheck.py C08-r5
Creates a scratch worktree /tmp/seed-<tag> of /repo (HEAD), recreates /tmp/seed-<tag>-out from seeded/<tag>/,
runs tools/seed_eval.py (which re-verifies the demonstration and runs ./check with VERIF_REPO=<worktree>),
keeps the earlier verdict under "earlier_verifications" in meta.json, and removes the worktree again."""
import sys, os, json, subprocess, shutil
ROOT = os.path.dirname(os.path.dirname(os.path.abspath(__file__)))
REPO = os.environ.get('VERIF_BASE_REPO', '/repo')
for tag in sys.argv[1:]:
    pid, _, name = tag.partition('-')
    d = os.path.join(ROOT, 'seeded', tag)
    wt, out = '/tmp/seed-' + tag, '/tmp/seed-' + tag + '-out'
    old = json.load(open(os.path.join(d, 'meta.json')))
    subprocess.run(['git', '-C', REPO, 'worktree', 'remove', '--force', wt], stdout=subprocess.DEVNULL, stderr=subprocess.DEVNULL)
    shutil.rmtree(wt, ignore_errors=True); shutil.rmtree(out, ignore_errors=True)
    subprocess.run(['git', '-C', REPO, 'worktree', 'prune'])
    subprocess.run(['git', '-C', REPO, 'worktree', 'add', '--detach', '-q', wt, 'HEAD'], check=True)
    shutil.copytree(d, out)
    prev = old.pop('coordinator_verification', None)
    hist = old.pop('earlier_verifications', [])
    if prev:
        hist.append({k: prev.get(k) for k in ('caught', 'caught_with_concrete_input', 'check_violation_line', 'check_exit')})
    old['earlier_verifications'] = hist
    json.dump(old, open(os.path.join(out, 'meta.json'), 'w'), indent=1)
    try:
        subprocess.run([sys.executable, os.path.join(ROOT, 'tools', 'seed_eval.py'), pid] + ([name] if name else []), cwd=ROOT)
    finally:
        subprocess.run(['git', '-C', REPO, 'worktree', 'remove', '--force', wt])
        shutil.rmtree(wt, ignore_errors=True); shutil.rmtree(out, ignore_errors=True)
