#!/usr/bin/env python3
"""Fill the generated parts of DESIGN.md: the seeded-change table from seeded/*/meta.json (between the SEEDED markers)."""
import json, os, glob, re
ROOT = os.path.dirname(os.path.dirname(os.path.abspath(__file__)))
rows = ['| id | property | change (as described by its author) | needs | tests pass with it | caught by `./check` | signature / replay |', '|---|---|---|---|---|---|---|']
for d in sorted(glob.glob(os.path.join(ROOT, 'seeded', '*'))):
    mp = os.path.join(d, 'meta.json')
    if not os.path.exists(mp):
        continue
    m = json.load(open(mp))
    cv = m.get('coordinator_verification', {})
    rep = cv.get('check_replay') or {}
    def cell(x, n=220):
        x = ' '.join(str(x).split()).replace('|', '\\|')
        return x[:n] + ('…' if len(x) > n else '')
    caught = 'no' if not cv.get('caught') else ('yes, concrete input' if cv.get('caught_with_concrete_input') else 'yes, no-failing-input-found')
    rows.append('| %s | %s | %s | %s | %s | %s | %s |' % (
        os.path.basename(d), m.get('breaks_property', m.get('property', '?')), cell(m.get('summary', '')), cell(m.get('what_it_needs_to_manifest', ''), 200),
        'yes' if cv.get('tests_pass_with_change') else 'NO', caught, cell('%s: %s' % (rep.get('signature', ''), rep.get('describe', '')), 200)))
table = '\n'.join(rows)
p = os.path.join(ROOT, 'DESIGN.md')
s = open(p).read()
if '@@SEEDED_TABLE@@' in s:
    s = s.replace('@@SEEDED_TABLE@@', '<!-- SEEDED:BEGIN -->\n@@X@@\n<!-- SEEDED:END -->')
s = re.sub(r'<!-- SEEDED:BEGIN -->.*?<!-- SEEDED:END -->', lambda _: '<!-- SEEDED:BEGIN -->\n' + table + '\n<!-- SEEDED:END -->', s, flags=re.S)
open(p, 'w').write(s)
print(len(rows) - 2, 'seeded changes')
