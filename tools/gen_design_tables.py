#!/usr/bin/env python3
"""Fill the generated parts of DESIGN.md: the seeded-change table from seeded/*/meta.json (between the SEEDED markers)."""
import json, os, glob, re
ROOT = os.path.dirname(os.path.dirname(os.path.abspath(__file__)))
rows = ['| id | property | change (as described by its author) | needs | tests pass with it | caught by `./check` | signature / replay |', '|---|---|---|---|---|---|---|']
for d in sorted(glob.glob(os.path.join(ROOT, 'seeded', '*'))):
    mp = os.path.join(d, 'meta.json')
    if not os.path.exists(mp):
        continue
    m = json.load(open(mp))
    cv = m.get('coordinator_verification', {})
    rep = cv.get('check_replay') or {}
    def cell(x, n=220):
        x = ' '.join(str(x).split()).replace('|', '\\|')
        return x[:n] + ('…' if len(x) > n else '')
    caught = 'no' if not cv.get('caught') else ('yes, concrete input' if cv.get('caught_with_concrete_input') else 'yes, no-failing-input-found')
    first = (m.get('earlier_verifications') or [None])[0]
    if first is not None and not (first.get('caught') and first.get('caught_with_concrete_input')) and cv.get('caught_with_concrete_input'):
        caught += ' (first run: %s; check strengthened)' % ('missed' if not first.get('caught') else 'no-failing-input-found')
    notes = [k for k in m if k.startswith('note_after_fix_')]
    if notes and not cv.get('caught'):
        caught = 'harmless on HEAD since fix %s; caught against the pre-fix base (see meta.json)' % notes[0][len('note_after_fix_'):]
    if not m.get('summary') and not os.path.exists(os.path.join(d, 'patch.diff')):
        caught += ' (deliverables lost before filing; not counted)'
    rows.append('| %s | %s | %s | %s | %s | %s | %s |' % (
        os.path.basename(d), m.get('breaks_property', m.get('property', '?')), cell(m.get('summary', '')), cell(m.get('what_it_needs_to_manifest', ''), 200),
        'yes' if cv.get('tests_pass_with_change') else 'NO', caught, cell('%s: %s' % (rep.get('signature', ''), rep.get('describe', '')), 200)))
table = '\n'.join(rows)
p = os.path.join(ROOT, 'DESIGN.md')
s = open(p).read()
if '@@SEEDED_TABLE@@' in s:
    s = s.replace('@@SEEDED_TABLE@@', '<!-- SEEDED:BEGIN -->\n@@X@@\n<!-- SEEDED:END -->')
s = re.sub(r'<!-- SEEDED:BEGIN -->.*?<!-- SEEDED:END -->', lambda _: '<!-- SEEDED:BEGIN -->\n' + table + '\n<!-- SEEDED:END -->', s, flags=re.S)
# property summaries (hand-written, docs/property_summaries.md) + per-run numbers from evidence/*.json
summ = open(os.path.join(ROOT, 'docs', 'property_summaries.md')).read()
ev = ['| id | obligations (discharged) | property theorems with Print Assumptions | quick cases | distinct non-trivial | known findings seen | wall s |', '|---|---|---|---|---|---|---|']
for f in sorted(glob.glob(os.path.join(ROOT, 'evidence', 'C*.json'))):
    e = json.load(open(f)); c = e['coverage']
    ev.append('| %s | %d (%d) | %s | %d | %d | %s | %s |' % (e['property_id'], c['obligations'], c['discharged'], c.get('property_theorems_with_print_assumptions', ''),
              c['evaluations'], c['distinct_nontrivial'], ', '.join(c.get('known_findings_seen', [])) or '-', e['wall_s']))
block = summ + '\nNumbers of the last committed quick run (`evidence/*.json`; every `Print Assumptions`: Closed under the global context):\n\n' + '\n'.join(ev)
if '<!-- PROPS:BEGIN -->' not in s:
    s = re.sub(r'\(table being completed[^\n]*\)', '<!-- PROPS:BEGIN -->\n@@X@@\n<!-- PROPS:END -->', s)
s = re.sub(r'<!-- PROPS:BEGIN -->.*?<!-- PROPS:END -->', lambda _: '<!-- PROPS:BEGIN -->\n' + block + '\n<!-- PROPS:END -->', s, flags=re.S)
open(p, 'w').write(s)
print(len(rows) - 2, 'seeded changes')
