#!/usr/bin/env python3
"""Regenerate MANIFEST.json from props/*.py (claimed) and properties.jsonl (everything else -> not_applicable)."""
import json, os, sys, importlib, re
ROOT = os.path.dirname(os.path.dirname(os.path.abspath(__file__)))
sys.path.insert(0, ROOT)
REASONS = {}
rp = os.path.join(ROOT, 'tools', 'not_applicable.json')
if os.path.exists(rp):
    REASONS = json.load(open(rp))
ids = [json.loads(l)['id'] for l in open(os.path.join(ROOT, 'properties.jsonl')) if l.strip()]
claimed = sorted(f[:-3] for f in os.listdir(os.path.join(ROOT, 'props')) if re.match(r'C\d+\.py$', f))
claimed = [c for c in claimed if getattr(importlib.import_module('props.' + c), 'READY', False)]
checks = []
for pid in claimed:
    P = importlib.import_module('props.' + pid)
    checks.append({
        'property_id': pid,
        'quick_cmd': './check %s --tier quick' % pid,
        'thorough_cmd': './check %s --tier thorough' % pid,
        'evidence_file': 'evidence/%s.json' % pid,
        'replay_cmd_template': './check %s --replay {path}' % pid,
        'engine': 'rocq-model',
        'level_claimed': {'category': 'proof', 'text': P.LEVEL_TEXT, 'design_ref': getattr(P, 'DESIGN_REF', 'DESIGN.md section 5')},
        'level_note': P.LEVEL_NOTE,
        'technique': P.TECHNIQUE,
    })
hooks = json.load(open(os.path.join(ROOT, 'tools', 'hooks.json')))
m = {
    'version': 1,
    'setup_cmd': './check --setup',
    'hooks': hooks,
    'engines': [{'name': 'rocq-model', 'path': 'tools/check.py', 'serves_properties': claimed,
                 'kind_free_text': 'Coq 8.16 model + theorems per property (coq/), constants regenerated from /repo by tools/gen_consts.py, '
                                   'extracted OCaml model vs sanitizer-built C++ harness differential correspondence, implementation-level property oracle'}],
    'checks': checks,
    'not_applicable': [{'property_id': i, 'reason': REASONS.get(i, 'check not built yet in this round; planned design in DESIGN.md section 5 (no claim is made until the Coq model, theorems and correspondence exist)')}
                       for i in ids if i not in claimed],
    'notes': 'All checks: ./check <id> --tier quick|thorough; exit 1 + VIOLATION line on violation; KNOWN_FINDINGS.txt lists repaired defects and recorded findings.',
}
json.dump(m, open(os.path.join(ROOT, 'MANIFEST.json'), 'w'), indent=1)
print('claimed:', claimed)
