"""C16 translator: constants, keyword strings and tables of src/string_convert.cpp, potassco/string_convert.h
and the stringified argument lists of the POTASSCO_ENUM_CONSTANTS enums -> coq/Gen/Consts_C16.v.

Only *data* is extracted (limits used by every integer overload, keyword literals with their strncmp
lengths and advances, the bool word table, the char escapes, printed words, the list separator, the
enum argument strings as the preprocessor stringifies them).  Control flow is mirrored by hand in
coq/C16/Model.v and checked by the correspondence run.  A missing anchor is reported as a problem.
"""
import os
import re

# <climits> values of the LP64 data model.  The harness prints the real values (op 6) and the
# correspondence check compares them with these, so a different data model is noticed.
LIMITS = {
    'INT_MIN': -2 ** 31, 'INT_MAX': 2 ** 31 - 1, 'UINT_MAX': 2 ** 32 - 1,
    'LONG_MIN': -2 ** 63, 'LONG_MAX': 2 ** 63 - 1, 'ULONG_MAX': 2 ** 64 - 1,
    'LLONG_MIN': -2 ** 63, 'LLONG_MAX': 2 ** 63 - 1, 'ULLONG_MAX': 2 ** 64 - 1,
    # narrow types served by the stream fall-back parser (harness op 9 4 prints the real values)
    'SCHAR_MIN': -2 ** 7, 'SCHAR_MAX': 2 ** 7 - 1, 'UCHAR_MAX': 2 ** 8 - 1, 'SHRT_MIN': -2 ** 15, 'SHRT_MAX': 2 ** 15 - 1, 'USHRT_MAX': 2 ** 16 - 1,
}
TYPES = [  # (C++ spelling, short name, signed?)
    ('int', 'int', True), ('unsigned', 'uint', False), ('long', 'long', True), ('unsigned long', 'ulong', False),
    ('long long', 'llong', True), ('unsigned long long', 'ullong', False)]
ENUMS = [  # (type code in the case protocol, name, header)
    (8, 'Head_t', 'potassco/basic_types.h'), (9, 'Body_t', 'potassco/basic_types.h'),
    (10, 'Value_t', 'potassco/basic_types.h'), (11, 'Heuristic_t', 'potassco/basic_types.h'),
    (12, 'Directive_t', 'potassco/basic_types.h'), (13, 'Theory_t', 'potassco/theory_data.h'),
    (14, 'Tuple_t', 'potassco/theory_data.h'), (15, 'Clause_t', 'potassco/clingo.h'),
    (16, 'Statistics_t', 'potassco/clingo.h')]
# Enumerations the HARNESS declares with the public macros (shapes no library enumeration has: smallest constant above min,
# holes, negative / positive minVal that is no constant, constants not in increasing order with an alias, a single constant).
# Read from the harness source, so model, harness and oracle talk about the same declarations (op 6 compares with enumClass()).
HARNESS_SRC = os.path.join(os.path.dirname(os.path.dirname(os.path.dirname(os.path.abspath(__file__)))), 'harness', 'h_c16.cpp')
ENUMS += [(17, 'Level_t', HARNESS_SRC), (18, 'Sparse_t', HARNESS_SRC), (19, 'Neg_t', HARNESS_SRC), (20, 'Off_t', HARNESS_SRC),
          (21, 'Unord_t', HARNESS_SRC), (22, 'One_t', HARNESS_SRC)]
# EnumClass::isValid: the conjuncts of its accepting condition, white space removed (any order, either spelling of a comparison)
VALID_MIN = ('v>=min', 'min<=v', 'v>=this->min', 'this->min<=v')
VALID_MAX = ('v<=max', 'max>=v', 'v<=this->max', 'this->max>=v')
VALID_TAB = ('detail::find_kv(*this,0,&v,0,0)', 'find_kv(*this,0,&v,0,0)')
C_ESC = {'t': 9, 'n': 10, 'v': 11, 'r': 13, 'f': 12, 'a': 7, 'b': 8, '0': 0, '\\': 92, "'": 39}


def rd(repo, rel):
    return open(os.path.join(repo, rel), encoding='latin-1').read()


def strip_c_comments(s):
    s = re.sub(r'/\*.*?\*/', ' ', s, flags=re.S)
    return re.sub(r'//[^\n]*', ' ', s)


def body_after(txt, start_re):
    """Text between the braces of the first function whose header matches start_re."""
    m = re.search(start_re, txt)
    if not m:
        return None
    i = txt.find('{', m.end() - 1)
    if i < 0:
        return None
    depth, j = 0, i
    while j < len(txt):
        if txt[j] == '{':
            depth += 1
        elif txt[j] == '}':
            depth -= 1
            if depth == 0:
                return txt[i + 1:j]
        j += 1
    return None


def c_char(lit):
    """Value of the C character literal body (without quotes)."""
    if lit.startswith('\\'):
        return C_ESC.get(lit[1:])
    return ord(lit) if len(lit) == 1 else None


def eval_limit(expr):
    e = expr.strip()
    for k in sorted(LIMITS, key=len, reverse=True):
        e = re.sub(r'\b%s\b' % k, '(%d)' % LIMITS[k], e)
    e = re.sub(r'(\d+)[uUlL]+', r'\1', e)
    if not re.match(r'^[\d\s()+\-*/<>]+$', e):
        raise ValueError('cannot evaluate limit expression %r' % expr)
    return int(eval(e, {'__builtins__': {}}))


def stringify(args):
    """What the preprocessor's # operator yields for a macro argument list: leading/trailing white space
    dropped, every white-space run between tokens replaced by one space (no string literals occur)."""
    return re.sub(r'\s+', ' ', args).strip()


def split_top(expr, op):
    """Split expr at the top-level (not inside parentheses) occurrences of the two-character operator op."""
    parts, depth, cur, i = [], 0, '', 0
    while i < len(expr):
        c = expr[i]
        if c in '([':
            depth += 1
        elif c in ')]':
            depth -= 1
        if depth == 0 and expr.startswith(op, i):
            parts.append(cur)
            cur = ''
            i += len(op)
            continue
        cur += c
        i += 1
    parts.append(cur)
    return parts


def coq_str(s):
    return '[' + '; '.join(str(b) for b in s.encode('latin-1')) + ']'


def generate(repo):
    problems, C, L = [], {}, []
    add = L.append
    add('Require Import ZArith List. Import ListNotations.')
    add('Local Open Scope Z_scope.')

    def zdef(name, val, src=''):
        C[name] = val
        add('Definition %s : Z := %d.%s' % (name, val, (' (* %s *)' % src) if src else ''))

    def sdef(name, s, src=''):
        C[name] = s
        add('Definition %s : list Z := %s. (* "%s"%s *)' % (name, coq_str(s), s, (' ' + src) if src else ''))

    try:
        cpp = strip_c_comments(rd(repo, 'src/string_convert.cpp'))
        hdr = strip_c_comments(rd(repo, 'potassco/string_convert.h'))
    except OSError as e:
        return None, {}, [str(e)]

    # ---- <climits> names (LP64) and the limits handed to parseSigned / parseUnsigned by each overload ----
    for k, v in LIMITS.items():
        zdef('c_' + k, v, '<climits>, LP64')
    for cty, short, signed in TYPES:
        b = body_after(cpp, r'int\s+xconvert\s*\(\s*const\s+char\s*\*\s*x\s*,\s*' + cty.replace(' ', r'\s+') + r'\s*&\s*out\b[^)]*\)\s*\{')
        if b is None:
            problems.append('anchor not found: xconvert(const char*, %s&)' % cty)
            continue
        try:
            if signed:
                m = re.search(r'parseSigned\s*\(\s*x\s*,\s*\w+\s*,\s*([^,;]+?)\s*,\s*([^,;]+?)\s*\)\s*[;)]', b)
                if not m:
                    problems.append('anchor not found: parseSigned call for %s' % cty)
                    continue
                zdef(short + '_min', eval_limit(m.group(1)), 'xconvert(const char*, %s&): %s' % (cty, m.group(1)))
                zdef(short + '_max', eval_limit(m.group(2)), m.group(2))
            else:
                m = re.search(r'parseUnsigned\s*\(\s*x\s*,\s*\w+\s*,\s*([^,;]+?)\s*\)\s*[;)]', b)
                if not m:
                    problems.append('anchor not found: parseUnsigned call for %s' % cty)
                    continue
                zdef(short + '_min', 0)
                zdef(short + '_max', eval_limit(m.group(1)), 'xconvert(const char*, %s&): %s' % (cty, m.group(1)))
        except ValueError as e:
            problems.append(str(e))

    # ---- keywords of parseSigned: strncmp(x, "imax", 4) == 0 && (out = sMax) ... x += 4 ----
    ps = body_after(cpp, r'static\s+bool\s+parseSigned\s*\(')
    if ps is None:
        problems.append('anchor not found: parseSigned')
    else:
        kws = re.findall(r'strncmp\s*\(\s*x\s*,\s*"([^"]*)"\s*,\s*(\d+)\s*\)\s*==\s*0\s*&&\s*\(\s*out\s*=\s*(sMax|sMin)\s*\)', ps)
        adv = re.search(r'x\s*\+=\s*(\d+)\s*;', ps)
        if len(kws) != 2 or not adv or sorted(k[2] for k in kws) != ['sMax', 'sMin']:
            problems.append('anchor not found: parseSigned keywords (found %r)' % (kws,))
        else:
            # in source order; each (literal, compare length, which limit)
            add('(* parseSigned keywords in source order: literal, strncmp length, true = sMax / false = sMin *)')
            add('Definition signed_keywords : list (list Z * nat * bool) := [%s].' % '; '.join(
                '(%s, %d%%nat, %s)' % (coq_str(k), int(n), 'true' if w == 'sMax' else 'false') for k, n, w in kws))
            zdef('signed_kw_advance', int(adv.group(1)), 'x += n after a keyword')
            C['signed_keywords'] = [(k, int(n), w) for k, n, w in kws]
        for nm in ('LLONG_MAX', 'LLONG_MIN'):
            if not re.search(r'out\s*==\s*' + nm, ps):
                problems.append('anchor not found: parseSigned compares out with ' + nm)

    # ---- keywords of parseUnsigned ----
    pu = body_after(cpp, r'static\s+bool\s+parseUnsigned\s*\(')
    if pu is None:
        problems.append('anchor not found: parseUnsigned')
    else:
        m0 = re.search(r'std::size_t\s+len\s*=\s*(\d+)\s*;', pu)
        kws = re.findall(r'strncmp\s*\(\s*x\s*,\s*"([^"]*)"\s*,\s*(len\s*=\s*\d+|len|\d+)\s*\)\s*==\s*0', pu)
        mv = re.search(r"out\s*=\s*\*x\s*!=\s*'(.)'\s*\?\s*uMax\s*:\s*uMax\s*>>\s*(\d+)\s*;", pu)
        mneg = re.search(r"\*x\s*==\s*'(.)'\s*&&\s*x\[1\]\s*!=\s*'(.)'", pu)
        if not m0 or len(kws) != 3 or not mv or not mneg:
            problems.append('anchor not found: parseUnsigned keywords')
        else:
            cur = int(m0.group(1))
            tab = []
            for k, n in kws:
                mm = re.search(r'(\d+)', n)
                if mm:
                    cur = int(mm.group(1))
                tab.append((k, cur))
            add('(* parseUnsigned keywords in source order: literal, strncmp length (= advance) *)')
            add('Definition unsigned_keywords : list (list Z * nat) := [%s].' % '; '.join('(%s, %d%%nat)' % (coq_str(k), n) for k, n in tab))
            zdef('unsigned_kw_half_char', ord(mv.group(1)), "out = *x != 'i' ? uMax : uMax >> k")
            zdef('unsigned_kw_shift', int(mv.group(2)))
            zdef('unsigned_neg_char', ord(mneg.group(1)), "*x == '-' && x[1] != '1' -> reject")
            zdef('unsigned_neg_next', ord(mneg.group(2)))
            C['unsigned_keywords'] = tab

    # ---- detectBase ----
    db = body_after(cpp, r'static\s+int\s+detectBase\s*\(')
    if db is None:
        problems.append('anchor not found: detectBase')
    else:
        m0 = re.search(r"x\[0\]\s*==\s*'(.)'", db)
        m16 = re.search(r"x\[1\]\s*==\s*'(.)'\s*\|\|\s*x\[1\]\s*==\s*'(.)'\s*\)\s*return\s+(\d+)", db)
        m8 = re.search(r"x\[1\]\s*>=\s*'(.)'\s*&&\s*x\[1\]\s*<=\s*'(.)'\s*\)\s*return\s+(\d+)", db)
        md = re.findall(r'return\s+(\d+)\s*;', db)
        if not (m0 and m16 and m8 and len(md) == 3):
            problems.append('anchor not found: detectBase shape')
        else:
            zdef('base_lead', ord(m0.group(1)), "detectBase: x[0] == '0'")
            zdef('base_hex_c1', ord(m16.group(1)))
            zdef('base_hex_c2', ord(m16.group(2)))
            zdef('base_hex', int(m16.group(3)))
            zdef('base_oct_lo', ord(m8.group(1)))
            zdef('base_oct_hi', ord(m8.group(2)))
            zdef('base_oct', int(m8.group(3)))
            zdef('base_default', int(md[2]))

    # ---- bool words ----
    bb = body_after(cpp, r'int\s+xconvert\s*\(\s*const\s+char\s*\*\s*x\s*,\s*bool\s*&\s*out\b[^)]*\)\s*\{')
    if bb is None:
        problems.append('anchor not found: xconvert(const char*, bool&)')
    else:
        tab = []
        for m in re.finditer(r"else\s+if\s*\(\s*(?:\*x\s*==\s*'(.)'|strncmp\s*\(\s*x\s*,\s*\"([^\"]*)\"\s*,\s*(\d+)\s*\)\s*==\s*0)\s*\)\s*"
                             r"\{\s*out\s*=\s*(true|false)\s*;\s*x\s*\+=\s*(\d+)\s*;\s*\}", bb):
            if m.group(1):
                tab.append((m.group(1), 1, m.group(4) == 'true', int(m.group(5))))
            else:
                tab.append((m.group(2), int(m.group(3)), m.group(4) == 'true', int(m.group(5))))
        if len(tab) < 2:
            problems.append('anchor not found: bool word table')
        add('(* xconvert(const char*, bool&): literal, compare length, value, advance -- in source order *)')
        add('Definition bool_words : list (list Z * nat * bool * nat) := [%s].' % '; '.join(
            '(%s, %d%%nat, %s, %d%%nat)' % (coq_str(k), n, 'true' if v else 'false', a) for k, n, v, a in tab))
        C['bool_words'] = tab
    m = re.search(r'xconvert\s*\(\s*string\s*&\s*out\s*,\s*bool\s+b\s*\)\s*\{\s*return\s+out\.append\s*\(\s*b\s*\?\s*"([^"]*)"\s*:\s*"([^"]*)"\s*\)', cpp)
    if m:
        sdef('bool_true_str', m.group(1), 'xconvert(string&, bool)')
        sdef('bool_false_str', m.group(2))
    else:
        problems.append('anchor not found: xconvert(string&, bool)')

    # ---- char escapes ----
    cb = body_after(cpp, r'int\s+xconvert\s*\(\s*const\s+char\s*\*\s*x\s*,\s*char\s*&\s*out\b[^)]*\)\s*\{')
    if cb is None:
        problems.append('anchor not found: xconvert(const char*, char&)')
    else:
        m = re.search(r"\(\s*out\s*=\s*\*x\+\+\s*\)\s*==\s*'(\\?.)'", cb)
        esc = re.findall(r"case\s*'(\\?.)'\s*:\s*out\s*=\s*'(\\?.)'\s*;\s*\+\+x\s*;", cb)
        if not m or not esc or c_char(m.group(1)) is None or any(c_char(a) is None or c_char(b) is None for a, b in esc):
            problems.append('anchor not found: char escapes')
        else:
            zdef('char_escape_lead', c_char(m.group(1)), 'backslash')
            add('Definition char_escapes : list (Z * Z) := [%s]. (* second character, resulting char *)' % '; '.join(
                '(%d, %d)' % (c_char(a), c_char(b)) for a, b in esc))
            C['char_escapes'] = [(c_char(a), c_char(b)) for a, b in esc]

    # ---- printed word for the largest unsigned value ----
    um = re.findall(r'static_cast<\s*unsigned\s+long(?:\s+long)?\s*>\s*\(\s*-1\s*\)[^;]*?out\.append\s*\(\s*"([^"]*)"\s*\)', cpp, re.S)
    ub = body_after(cpp, r'string\s*&\s*xconvert\s*\(\s*string\s*&\s*out\s*,\s*unsigned\s+long\s+n\s*\)\s*\{')
    ubb = body_after(cpp, r'string\s*&\s*xconvert\s*\(\s*string\s*&\s*out\s*,\s*unsigned\s+long\s+long\s+n\s*\)\s*\{')
    w1 = re.search(r'out\.append\s*\(\s*"([^"]*)"\s*\)', ub or '')
    w2 = re.search(r'out\.append\s*\(\s*"([^"]*)"\s*\)', ubb or '')
    if w1 and w2:
        sdef('ulong_max_str', w1.group(1), 'xconvert(string&, unsigned long)')
        sdef('ullong_max_str', w2.group(1), 'xconvert(string&, unsigned long long)')
    else:
        problems.append('anchor not found: printed word for (unsigned long)-1')

    # ---- separator ----
    m = re.search(r"const\s+int\s+def_sep\s*=\s*int\s*\(\s*'(.)'\s*\)", hdr)
    if m:
        zdef('def_sep', ord(m.group(1)), 'potassco/string_convert.h')
    else:
        problems.append('anchor not found: def_sep')
    zdef('pair_open', 40, "'('")
    zdef('pair_close', 41, "')'")
    zdef('seq_open', 91, "'['")
    zdef('seq_close', 93, "']'")
    for nm, ch, where in (('pair_open', '(', 'xconvert(pair)'), ('pair_close', ')', 'xconvert(pair)'),
                          ('seq_open', '[', 'convert_seq'), ('seq_close', ']', 'convert_seq')):
        if ("*n == '%s'" % ch) not in hdr:
            problems.append('anchor not found: %s in %s' % (nm, where))

    # ---- EnumClass::isValid: "within [min, max] and IN THE TABLE" - the model's ec_valid (and every enum theorem) rests on it ----
    iv = body_after(cpp, r'bool\s+EnumClass\s*::\s*isValid\s*\(\s*int\s+v\s*\)\s*const\s*\{')
    if iv is None:
        problems.append('anchor not found: EnumClass::isValid')
    else:
        m = re.match(r'^\s*return\b(.*?);\s*$', iv, re.S)
        if not m:
            problems.append('anchor not found: EnumClass::isValid is not a single return statement')
        else:
            conj = [re.sub(r'\s+', '', c) for c in split_top(m.group(1), '&&')]
            seen = [('min' if c in VALID_MIN else 'max' if c in VALID_MAX else 'table' if c in VALID_TAB else None) for c in conj]
            if None in seen or sorted(seen) != ['max', 'min', 'table']:
                problems.append('anchor not found: EnumClass::isValid is no longer "v >= min && v <= max && find_kv(*this, 0, &v, 0, 0)" '
                                '(found conjuncts %r): membership in the key table is what ec_valid models' % (conj,))
    # ---- the public macros: min is the fixed 0 / the caller's minVal, max the last enumerator, rep the stringified arguments ----
    try:
        plat = strip_c_comments(rd(repo, 'potassco/platform.h'))
        flat = re.sub(r'\\\n', ' ', plat)
        flat = re.sub(r'\s+', '', flat)
        for what, needle in (('enum E of POTASSCO_ENUM_CONSTANTS_T', 'enumE{__VA_ARGS__,__eEnd,eMin=minVal,eMax=__eEnd-1};'),
                             ('enumClass() of POTASSCO_ENUM_CONSTANTS_T', 'Potassco::EnumClassr={#TypeName,#__VA_ARGS__,eMin,eMax};'),
                             ('POTASSCO_ENUM_CONSTANTS', '#definePOTASSCO_ENUM_CONSTANTS(TypeName,...)POTASSCO_ENUM_CONSTANTS_T(TypeName,unsigned,0u,__VA_ARGS__)')):
            if needle not in flat:
                problems.append('anchor not found: ' + what + ' in potassco/platform.h')
    except OSError as e:
        problems.append(str(e))
    # find_kv numbers an enumerator without "= value" from e.min on (the first) / previous + 1
    fk = body_after(cpp, r'bool\s+find_kv\s*\(\s*const\s+EnumClass\s*&\s*e\b')
    if fk is None or not re.search(r'for\s*\(\s*int\s+cVal\s*=\s*e\.min\s*;\s*;\s*\+\+cVal\s*\)', fk):
        problems.append('anchor not found: find_kv counts from e.min')

    # ---- enums: the stringified argument lists ----
    ents = []
    for code, name, rel in ENUMS:
        try:
            t = strip_c_comments(rd(repo, rel))
        except OSError as e:
            problems.append(str(e))
            continue
        m = re.search(r'POTASSCO_ENUM_CONSTANTS(_T)?\s*\(\s*' + name + r'\s*,(.*?)\)\s*;', t, re.S)
        if not m:
            problems.append('anchor not found: enum ' + name)
            continue
        args = m.group(2)
        minv = 0
        if m.group(1):
            parts = args.split(',', 2)
            try:
                minv = int(re.sub(r'[uU]$', '', parts[1].strip()))
            except ValueError:
                problems.append('cannot evaluate minimum of enum ' + name)
                continue
            args = parts[2]
        rep = stringify(args)
        # eMax = __eEnd - 1 where __eEnd follows the last enumerator
        cur, last = None, None
        okv = True
        for item in rep.split(','):
            kv = item.split('=')
            if len(kv) == 2:
                try:
                    cur = int(kv[1].strip())
                except ValueError:
                    okv = False
            else:
                cur = 0 if cur is None else cur + 1
            last = cur
        if not okv or last is None:
            problems.append('cannot evaluate enumerators of ' + name)
            continue
        ents.append((code, name, rep, minv, last))
        sdef('rep_' + name, rep, os.path.relpath(rel, os.path.dirname(os.path.dirname(HARNESS_SRC))) if os.path.isabs(rel) else rel)
        zdef('emin_' + name, minv)
        zdef('emax_' + name, last, '__eEnd - 1')
    add('(* type code, stringified arguments, eMin, eMax *)')
    add('Definition enum_classes : list (Z * list Z * Z * Z) := [%s].' % '; '.join(
        '(%d, rep_%s, emin_%s, emax_%s)' % (c, n, n, n) for c, n, _, _, _ in ents))
    C['enum_classes'] = [(c, n, r, a, b) for c, n, r, a, b in ents]
    return '\n'.join(L) + '\n', C, problems
