"""Translator for C15: enum values of Value::State and ValueError::Type, the default implicit string,
and the keyword table of the bool converter (used by the concrete flag parser of the model).
Every anchor that is not found is reported as a problem."""
import os, re


def rd(repo, rel):
    return open(os.path.join(repo, rel), encoding='latin-1').read()


def strip(s):
    s = re.sub(r'/\*.*?\*/', ' ', s, flags=re.S)
    return re.sub(r'//[^\n]*', ' ', s)


def enum_body(txt, name, problems):
    m = re.search(r'enum\s+' + name + r'\s*\{(.*?)\}', txt, re.S)
    if not m:
        problems.append('anchor not found: enum ' + name)
        return []
    tab, nxt = [], 0
    for item in m.group(1).split(','):
        item = item.strip()
        if not item:
            continue
        if '=' in item:
            k, v = item.split('=')
            nxt = int(v.strip(), 0)
            k = k.strip()
        else:
            k = item
        tab.append((k, nxt))
        nxt += 1
    return tab


def coq_str(s):
    return '[' + '; '.join(str(b) for b in s.encode('latin-1')) + ']'


def generate(repo):
    problems, C, L = [], {}, []
    add = L.append
    add('Require Import ZArith List. Import ListNotations.')
    add('Local Open Scope Z_scope.')
    try:
        v = strip(rd(repo, 'potassco/program_opts/value.h'))
        st = dict(enum_body(v, 'State', problems))
        for k, nm in (('value_unassigned', 'VALUE_UNASSIGNED'), ('value_defaulted', 'VALUE_DEFAULTED'), ('value_fixed', 'VALUE_FIXED')):
            if k in st:
                C[nm] = st[k]
                add('Definition %s : Z := %d. (* value.h Value::State::%s *)' % (nm, st[k], k))
            else:
                problems.append('anchor not found: Value::' + k)
        e = strip(rd(repo, 'potassco/program_opts/errors.h'))
        m = re.search(r'class\s+ValueError\b(.*?)\n\};', e, re.S)
        if not m:
            problems.append('anchor not found: class ValueError')
        else:
            ty = dict(enum_body(m.group(1), 'Type', problems))
            for k, nm in (('multiple_occurrences', 'ERR_MULTIPLE'), ('invalid_default', 'ERR_INVALID_DEFAULT'), ('invalid_value', 'ERR_INVALID_VALUE')):
                if k in ty:
                    C[nm] = ty[k]
                    add('Definition %s : Z := %d. (* errors.h ValueError::%s *)' % (nm, ty[k], k))
                else:
                    problems.append('anchor not found: ValueError::' + k)
        p = rd(repo, 'src/program_options.cpp')
        m = re.search(r'const char\*\s+Value::implicit\(\)\s*const\s*\{.*?return\s+x\s*\?\s*x\s*:\s*"([^"]*)"\s*;', p, re.S)
        if m:
            C['IMPLICIT_DEFAULT'] = m.group(1)
            add('Definition IMPLICIT_DEFAULT : list Z := %s. (* Value::implicit(): %r *)' % (coq_str(m.group(1)), m.group(1)))
        else:
            problems.append('anchor not found: Value::implicit() default string')
        s = rd(repo, 'src/string_convert.cpp')
        m = re.search(r'int\s+xconvert\(const char\*\s*x,\s*bool&\s*out[^)]*\)\s*\{(.*?)\n\}', s, re.S)
        if not m:
            problems.append('anchor not found: xconvert(const char*, bool&)')
        else:
            body = m.group(1)
            tab = []
            for mm in re.finditer(r"(?:\*x\s*==\s*'(.)'|strncmp\(x,\s*\"([^\"]+)\",\s*(\d+)\)\s*==\s*0)\s*\)\s*\{\s*out\s*=\s*(true|false)\s*;\s*x\s*\+=\s*(\d+)\s*;", body):
                w = mm.group(1) or mm.group(2)
                n = int(mm.group(5))
                if len(w) != n or (mm.group(3) and int(mm.group(3)) != n):
                    problems.append('bool keyword %r: compared/advanced lengths differ' % w)
                tab.append((w, 1 if mm.group(4) == 'true' else 0))
            if len(tab) < 2:
                problems.append('anchor not found: bool keyword table')
            C['bool_words'] = tab
            add('Definition bool_words : list (list Z * Z) := [%s]. (* xconvert(const char*, bool&) in order *)' % '; '.join('(%s, %d)' % (coq_str(w), b) for w, b in tab))
        m = re.search(r'xconvert\(const char\*\s*x,\s*int&\s*out.*?parseSigned\(x,\s*temp,\s*INT_MIN,\s*INT_MAX\)', s, re.S)
        if m:
            add('Definition C15_INT_MIN : Z := -2147483648.')
            add('Definition C15_INT_MAX : Z := 2147483647.')
        else:
            problems.append('anchor not found: xconvert(const char*, int&) range INT_MIN..INT_MAX')
    except OSError as ex:
        problems.append(str(ex))
    return '\n'.join(L) + '\n', C, problems


if __name__ == '__main__':
    t, c, p = generate('/repo')
    print(t)
    print(p)
