"""Translator for C08: texts and constants of the predicate matchers (src/match_basic_types.cpp), of
toString(Heuristic_t) (potassco/basic_types.h) and of the external-value coding of the smodels writer / reader
(src/smodels.cpp).  The three format strings of convert.cpp and the enum tables are in the shared V.Gen.Consts.
Only constants / literal texts are anchored (no code shapes); an anchor that is not found is a problem."""
import re, os


def _rd(repo, rel):
    return open(os.path.join(repo, rel), encoding='latin-1').read()


def _strip(s):
    s = re.sub(r'/\*.*?\*/', ' ', s, flags=re.S)
    return re.sub(r'//[^\n]*', ' ', s)


def _coq_str(s):
    return '[' + '; '.join(str(b) for b in s.encode('latin-1')) + ']'


def generate(repo):
    problems, C, L = [], {}, []
    L.append('Require Import ZArith List. Import ListNotations.')
    L.append('Local Open Scope Z_scope.')

    def const(name, val, src):
        C[name] = val
        L.append('Definition %s : Z := %d. (* %s *)' % (name, val, src))

    def text(name, s, src):
        C[name] = s
        L.append('Definition %s : list Z := %s. (* %s : %s *)' % (name, _coq_str(s), src, s))
    try:
        mb = _strip(_rd(repo, 'src/match_basic_types.cpp'))
        m = re.search(r'Heuristic_t::pred\s*=\s*\{\s*"([^"]*)"\s*,\s*(\d+)\s*\}', mb)
        if m:
            text('heu_pred', m.group(1), 'Heuristic_t::pred')
            if int(m.group(2)) != len(m.group(1)):
                problems.append('Heuristic_t::pred: stated size %s differs from the length of its text' % m.group(2))
        else:
            problems.append('anchor not found: Heuristic_t::pred')
        m = re.search(r'sscanf\s*\(\s*in\s*,\s*"(_acyc_[^"]*)"', mb)
        if m:
            text('acyc_fmt', m.group(1), 'matchEdgePred sscanf format')
            if re.sub(r'%\*d|%n', '', m.group(1)).count('%') or re.search(r'\s', m.group(1)):
                problems.append('matchEdgePred: sscanf format uses a directive the model does not interpret: ' + m.group(1))
            C['acyc_n'] = m.group(1).count('%n')
            if C['acyc_n'] != 3:
                problems.append('matchEdgePred: sscanf format no longer records three positions')
        else:
            problems.append('anchor not found: matchEdgePred sscanf format')
        m = re.search(r'match\s*\(\s*in\s*,\s*"(_edge\([^"]*)"\s*\)', mb)
        if m:
            text('edge_pred', m.group(1), 'matchEdgePred predicate text')
        else:
            problems.append('anchor not found: matchEdgePred "_edge("')
        m = re.search(r'strtol\s*\(\s*input\s*,\s*&\s*eptr\s*,\s*(\d+)\s*\)', mb)
        if m:
            const('strtol_base', int(m.group(1)), 'match(const char*&, int&): base handed to strtol')
            if int(m.group(1)) != 10:
                problems.append('match(const char*&, int&): strtol base is not 10 (the model reads decimal digits)')
        else:
            problems.append('anchor not found: strtol(input, &eptr, 10)')
    except OSError as e:
        problems.append(str(e))
    try:
        b = _strip(_rd(repo, 'potassco/basic_types.h'))
        m = re.search(r'toString\s*\(\s*Heuristic_t\s+\w+\s*\)\s*\{(.*?)default\s*:\s*return\s*"([^"]*)"', b, re.S)
        if not m:
            problems.append('anchor not found: toString(Heuristic_t)')
        else:
            names = re.findall(r'case\s+Heuristic_t::(\w+)\s*:\s*return\s*"([^"]*)"', m.group(1))
            em = re.search(r'POTASSCO_ENUM_CONSTANTS\(\s*Heuristic_t\s*,(.*?)\)\s*;', b, re.S)
            vals = {}
            if em:
                for item in em.group(1).split(','):
                    k, v = item.split('=')
                    vals[k.strip()] = int(v.strip())
            else:
                problems.append('anchor not found: enum Heuristic_t')
            tab = [(vals[k], s) for k, s in names if k in vals]
            C['heu_lc'] = tab
            L.append('Definition heu_lc : list (Z * list Z) := [%s]. (* toString(Heuristic_t): lower-case modifier names *)' % '; '.join(
                '(%d, %s)' % (v, _coq_str(s)) for v, s in tab))
            text('heu_lc_default', m.group(2), 'toString(Heuristic_t) default')
            if vals:
                const('heu_emax', max(vals.values()), 'Heuristic_t::eMax')
    except OSError as e:
        problems.append(str(e))
    try:
        sm = _strip(_rd(repo, 'src/smodels.cpp'))
        # writer:  add((unsigned(t)^3)-1)     reader:  (matchPos(2, "...") ^ 3) - 1
        m = re.search(r'unsigned\s*\(\s*t\s*\)\s*\^\s*(\d+)\s*\)\s*-\s*(\d+)', sm)
        if m:
            const('extw_xor', int(m.group(1)), 'SmodelsOutput::external value code')
            const('extw_sub', int(m.group(2)), 'SmodelsOutput::external value code')
        else:
            problems.append('anchor not found: SmodelsOutput::external value code (unsigned(t)^k)-j')
        m = re.search(r'matchPos\s*\(\s*(\d+)\s*,\s*"[^"]*"\s*\)\s*\^\s*(\d+)\s*\)\s*-\s*(\d+)', sm)
        if m:
            const('extr_max', int(m.group(1)), 'SmodelsInput::readRules external value limit')
            const('extr_xor', int(m.group(2)), 'SmodelsInput::readRules external value code')
            const('extr_sub', int(m.group(3)), 'SmodelsInput::readRules external value code')
        else:
            problems.append('anchor not found: SmodelsInput::readRules external value code (matchPos(m, ..) ^ k) - j')
    except OSError as e:
        problems.append(str(e))
    # LP64 limits of int / long (g++ on this platform); used by the model of strtol's clamping
    const('C_INT_MIN', -2 ** 31, 'INT_MIN')
    const('C_INT_MAX', 2 ** 31 - 1, 'INT_MAX')
    const('C_LONG_MIN', -2 ** 63, 'LONG_MIN (LP64)')
    const('C_LONG_MAX', 2 ** 63 - 1, 'LONG_MAX (LP64)')
    const('C_UINT_MOD', 2 ** 32, 'UINT_MAX + 1')
    return '\n'.join(L) + '\n', C, problems


if __name__ == '__main__':
    import sys
    t, c, p = generate(sys.argv[1] if len(sys.argv) > 1 else '/repo')
    print(t)
    print(c)
    print(p)
