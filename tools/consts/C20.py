"""C20 translator: the storage-selection rules of ValueStore, read from the headers.

  potassco/program_opts/detail/value_store.h
     vtable(const T*)       -> vtable_select(bool2type<sizeof(T) OP sizeof(void*)>(), x)    OP becomes inplace_cmp
     base_vtable(const T*)  -> vtable_select(bool2type<0>(), x)                               becomes base_inplace
     vtable_select(bool2type<0>) returns &VTable<T>::vtable_s, <1> returns &OptVTable<T>::vtable_s
     VTable<T>::vtable_s[0] = 0, OptVTable<T>::vtable_s[0] = 0x1   (slot 0 = call_extract tag)
  src/value_store.cpp
     extract(): tag == 0 -> return *v (heap pointer) else the address of the slot itself (in place)
  potassco/program_opts/value_store.h
     enum { call_extract = 0, vcall_clone = 1, vcall_destroy = 2, vcall_typeid = 3 }
  potassco/program_opts/detail/refcountable.h
     RefCountable() : refCount_(1)

Every anchor that is not found is a problem (a broken obligation), never a default.
"""
import os
import re


def rd(repo, rel):
    return open(os.path.join(repo, rel), encoding='latin-1').read()


def strip(s):
    s = re.sub(r'/\*.*?\*/', ' ', s, flags=re.S)
    s = re.sub(r'//[^\n]*', ' ', s)
    return s


CMP = {'<=': 'Z.leb', '<': 'Z.ltb', '>=': 'Z.geb', '>': 'Z.gtb', '==': 'Z.eqb'}


def generate(repo):
    probs = []
    C = {}
    L = ['Require Import ZArith Bool.', 'Local Open Scope Z_scope.']
    try:
        d = strip(rd(repo, 'potassco/program_opts/detail/value_store.h'))
        h = strip(rd(repo, 'potassco/program_opts/value_store.h'))
        c = strip(rd(repo, 'src/value_store.cpp'))
        r = strip(rd(repo, 'potassco/program_opts/detail/refcountable.h'))
    except OSError as e:
        return None, {}, [str(e)]

    # in-place rule
    m = re.search(r'inline\s+vptr_type\s+vtable\s*\(\s*const\s+T\s*\*\s*x\s*\)\s*\{\s*return\s+vtable_select\s*\(\s*bool2type\s*<\s*'
                  r'sizeof\s*\(\s*T\s*\)\s*(<=|<|>=|>|==)\s*sizeof\s*\(\s*void\s*\*\s*\)\s*>\s*\(\s*\)\s*,\s*x\s*\)\s*;\s*\}', d)
    if m:
        C['inplace_cmp'] = m.group(1)
        L.append('Definition inplace_cmp (size_of_T size_of_ptr : Z) : bool := %s size_of_T size_of_ptr. (* vtable(): sizeof T %s sizeof void-pointer *)'
                 % (CMP[m.group(1)], m.group(1)))
    else:
        probs.append('anchor not found: detail::vtable() -> vtable_select(bool2type<sizeof(T) OP sizeof(void*)>(), x)')
        L.append('Definition inplace_cmp (size_of_T size_of_ptr : Z) : bool := Z.leb size_of_T size_of_ptr. (* ANCHOR MISSING *)')
    # adopted objects always use the heap vtable
    m = re.search(r'inline\s+vptr_type\s+base_vtable\s*\(\s*const\s+T\s*\*\s*x\s*\)\s*\{\s*return\s+vtable_select\s*\(\s*bool2type\s*<\s*(\w+)\s*>\s*\(\s*\)\s*,\s*x\s*\)\s*;\s*\}', d)
    if m and m.group(1) in ('0', 'false', '1', 'true'):
        v = m.group(1) in ('1', 'true')
        C['base_inplace'] = v
        L.append('Definition base_inplace : bool := %s. (* base_vtable: bool2type %s *)' % ('true' if v else 'false', m.group(1)))
    else:
        probs.append('anchor not found: detail::base_vtable() -> vtable_select(bool2type<0>(), x)')
        L.append('Definition base_inplace : bool := false. (* ANCHOR MISSING *)')
    # which table each selector returns, and the extract tags of the two tables
    sel = {}
    for b in ('0', '1'):
        m = re.search(r'vtable_select\s*\(\s*bool2type\s*<\s*' + b + r'\s*>\s*,\s*const\s+T\s*\*\s*=\s*0\s*\)\s*\{\s*return\s*&\s*(\w+)\s*<\s*T\s*>\s*::\s*vtable_s\s*;', d)
        if m:
            sel[b] = m.group(1)
        else:
            probs.append('anchor not found: vtable_select(bool2type<%s>)' % b)
    tag = {}
    for t in ('VTable', 'OptVTable'):
        m = re.search(r'vtable_type\s+' + t + r'\s*<\s*T\s*>\s*::\s*vtable_s\s*=\s*\{\s*(\(\s*vcall_type\s*\)\s*)?(0x[0-9a-fA-F]+|\d+)\s*,\s*&\s*(\w+)<T>::clone\s*,\s*&\s*(\w+)<T>::destroy\s*,\s*&\s*(\w+)<T>::typeinfo', d)
        if m:
            tag[t] = int(m.group(2), 0)
            if m.group(3) != t or m.group(4) != t:
                probs.append('%s::vtable_s does not pair its own clone/destroy (%s/%s)' % (t, m.group(3), m.group(4)))
        else:
            probs.append('anchor not found: %s<T>::vtable_s initialiser' % t)
    # clone/destroy bodies: VTable uses new/delete, OptVTable placement new / explicit destructor call
    body = {
        'VTable': (r'\*out\s*=\s*new\s+T\s*\(\s*\*\s*static_cast<const\s+T\*>\(o\)\s*\)\s*;', r'delete\s+static_cast<const\s+T\*>\(o\)\s*;'),
        'OptVTable': (r'new\s*\(\s*&\*out\s*\)\s*T\s*\(\s*\*\s*static_cast<const\s+T\*>\(o\)\s*\)\s*;', r'static_cast<const\s+T\*>\(o\)->~T\(\)\s*;'),
    }
    for t, (cl, de) in body.items():
        m = re.search(r'struct\s+' + t + r'\s*\{(.*?)static\s+vtable_type\s+vtable_s\s*;', d, re.S)
        if not m or not re.search(cl, m.group(1)) or not re.search(de, m.group(1)):
            probs.append('anchor not found: %s<T>::clone/destroy body' % t)
    # extract(): tag 0 = heap
    m = re.search(r'void\s*\*\s*ValueStore::extract\s*\(\s*void\s*\*\*\s*v\s*\)\s*const\s*\{\s*if\s*\(\s*\(\*vptr_\)\[call_extract\]\s*==\s*0\s*\)\s*\{\s*return\s*\*v\s*;\s*\}\s*return\s+reinterpret_cast<void\*>\(v\)\s*;', c)
    if not m:
        probs.append('anchor not found: ValueStore::extract (tag 0 -> *v, else the slot address)')
    m = re.search(r'enum\s*\{\s*call_extract\s*=\s*(\d+)\s*,\s*vcall_clone\s*=\s*(\d+)\s*,\s*vcall_destroy\s*=\s*(\d+)\s*,\s*vcall_typeid\s*=\s*(\d+)\s*\}', h)
    if m:
        C['slots'] = [int(x) for x in m.groups()]
        if C['slots'] != [0, 1, 2, 3]:
            probs.append('ValueStore vtable slot numbering changed: %r (tables are initialised in the order extract-tag, clone, destroy, typeinfo)' % (C['slots'],))
    else:
        probs.append('anchor not found: ValueStore enum { call_extract, vcall_clone, vcall_destroy, vcall_typeid }')
    # selector 0 must be the table whose tag says "heap" (0), selector 1 the one that says "in place" (!= 0)
    if len(sel) == 2 and len(tag) == 2:
        t0, t1 = tag.get(sel['0']), tag.get(sel['1'])
        C['select'] = sel
        C['tags'] = tag
        if t0 != 0 or t1 in (0, None):
            probs.append('vtable_select/extract tags inconsistent: bool2type<0> -> %s (tag %r), bool2type<1> -> %s (tag %r)' % (sel['0'], t0, sel['1'], t1))
        if sel['0'] != 'VTable' or sel['1'] != 'OptVTable':
            probs.append('vtable_select maps bool2type<0> to %s and bool2type<1> to %s (expected VTable / OptVTable)' % (sel['0'], sel['1']))
    # reference counts start at one
    m = re.search(r'RefCountable\s*\(\s*\)\s*:\s*refCount_\s*\(\s*(\d+)\s*\)', r)
    if m:
        C['rc_init'] = int(m.group(1))
        L.append('Definition rc_init : Z := %d. (* RefCountable: refCount_ starts at %s *)' % (int(m.group(1)), m.group(1)))
    else:
        probs.append('anchor not found: RefCountable() : refCount_(1)')
        L.append('Definition rc_init : Z := 1. (* ANCHOR MISSING *)')
    return '\n'.join(L) + '\n', C, probs


if __name__ == '__main__':
    import sys
    t, c, p = generate(sys.argv[1] if len(sys.argv) > 1 else '/repo')
    print(t)
    print(c)
    print(p)
