"""C20 translator: the storage-selection rules of ValueStore, read from the headers.

  potassco/program_opts/detail/value_store.h
     vtable(const T*)       -> vtable_select(bool2type< PRED >(), x)    PRED = a constant expression over sizeof(T), sizeof(void*) and
                               integer literals (comparison / && || ! / + * / % / parentheses) becomes  in_place (size word : Z) : bool,
                               e.g. `sizeof(T)<=sizeof(void*)` -> `(size <=? word)`; coq/C20/Fits.v proves  in_place s 8 = true -> s <= 8  for ALL s > 0
                               (an object stored in the holder's word fits into it) - a predicate that admits a larger size breaks that proof.
                               `a - b` on size_t operands is translated exactly (2^64 is added when a < b: unsigned wrap-around); `+` and `*` are
                               not wrapped (sizes are far below 2^63).  An expression outside this grammar is a problem.
     base_vtable(const T*)  -> vtable_select(bool2type<0>(), x)                               becomes base_inplace
     vtable_select(bool2type<0>) returns &VTable<T>::vtable_s, <1> returns &OptVTable<T>::vtable_s
     VTable<T>::vtable_s[0] = 0, OptVTable<T>::vtable_s[0] = 0x1   (slot 0 = call_extract tag)
  src/value_store.cpp
     extract(): tag == 0 -> return *v (heap pointer) else the address of the slot itself (in place)
  potassco/program_opts/value_store.h
     enum { call_extract = 0, vcall_clone = 1, vcall_destroy = 2, vcall_typeid = 3 }
     value_cast(const ValueStore& v, const T* = 0) { if (v.type() == typeid(T)) { return *static_cast<const T*>(...v.extract_raw()...); } throw bad_value_cast(); }
     value_cast(const ValueStore* v, const T* = 0) { if (v->type() == typeid(T)) { return static_cast<const T*>(...v->extract_raw()...); } return 0; }
                               the type test of BOTH checked forms is the comparison of the two std::type_info OBJECTS with operator==
                               (either operand order; whitespace free) - the model's `cast` compares type tags (hty (slot s i) =? ty), i.e. type
                               identity.  Anything else in the condition (a helper, a comparison of type_info::name() strings, hash_code, ...) is a
                               problem: distinct types can share a name (internal-linkage types of the same spelling in two translation units).
                               The non-const forms must forward to the const forms, const ValueStore::type() must ask the vtable's typeid slot.
  potassco/program_opts/detail/refcountable.h
     RefCountable() : refCount_(1)
     <type> refCount_;                                  declared type of the counter -> refcount_min / refcount_max / refcount_overflow_undefined
     <type> addRef() { return ++refCount_; }            bodies are anchors; the return types of release() / refCount() / count() give
     <type> release() { return --refCount_; }           refcount_rel_* (the value `release() == 0` is tested on) and refcount_obs_* (what
     <type> refCount() const { return refCount_; }      refCount() / count() report); refcount_bound = the smallest of the maxima = the
     <type> count() const throw() { return ptr_ ? ptr_->refCount() : 0; }      largest number of simultaneous holders the counter represents exactly
     an unknown / non-integer type is a problem (broken obligation), a wider type is accepted (the range grows).

Every anchor that is not found is a problem (a broken obligation), never a default.
"""
import os
import re


def rd(repo, rel):
    return open(os.path.join(repo, rel), encoding='latin-1').read()


def strip(s):
    s = re.sub(r'/\*.*?\*/', ' ', s, flags=re.S)
    s = re.sub(r'//[^\n]*', ' ', s)
    return s


# integer types of the LP64 target the harness is built for (static_asserts in harness/h_c20.cpp tie sizeof(int)/short/long to this table):
# name -> (bits, signed).  Arithmetic on types narrower than int is done in int and converted back (modular, no undefined behaviour);
# ++/-- beyond the range of a signed type of rank >= int is undefined (UBSan: signed-integer-overflow).
INT_TYPES = {
    'signed char': (8, True), 'char': (8, True), 'unsigned char': (8, False),
    'short': (16, True), 'unsigned short': (16, False),
    'int': (32, True), 'unsigned': (32, False), 'unsigned int': (32, False),
    'long': (64, True), 'unsigned long': (64, False), 'long long': (64, True), 'unsigned long long': (64, False),
    'int8_t': (8, True), 'uint8_t': (8, False), 'int16_t': (16, True), 'uint16_t': (16, False),
    'int32_t': (32, True), 'uint32_t': (32, False), 'int64_t': (64, True), 'uint64_t': (64, False),
    'size_t': (64, False), 'ptrdiff_t': (64, True), 'ssize_t': (64, True), 'intptr_t': (64, True), 'uintptr_t': (64, False),
}
TYPE_RX = r'((?:(?:std\s*::\s*)?\b(?:unsigned|signed|short|long|int|char|u?int(?:8|16|32|64)_t|size_t|ssize_t|ptrdiff_t|u?intptr_t)\b\s*)+)'


def int_type(txt):
    """declared type text -> (canonical name, lo, hi, overflow_undefined) or None"""
    w = [x for x in re.sub(r'std\s*::\s*', '', txt).split() if x]
    if not w:
        return None
    uns = 'unsigned' in w
    core = [x for x in w if x not in ('unsigned', 'signed')]
    if core and core[-1] == 'int' and len(core) > 1:
        core = core[:-1]                      # short int, long int, long long int
    name = ' '.join(core) if core else 'int'
    if name in ('short', 'int', 'long', 'long long', 'char'):
        key = ('unsigned ' + name) if uns else ('signed char' if (name == 'char' and 'signed' in w) else name)
    elif len(w) == 1:
        key = name
    else:
        return None
    if key not in INT_TYPES:
        return None
    bits, sg = INT_TYPES[key]
    lo, hi = (-(1 << (bits - 1)), (1 << (bits - 1)) - 1) if sg else (0, (1 << bits) - 1)
    return key, lo, hi, (sg and bits >= 32)


class PredError(Exception):
    pass


def pred_to_coq(txt):
    """C++ constant expression over sizeof(T) / sizeof(void*) / integer literals -> (Coq term of type bool over `size` and `word`, normalised text).
    Types are tracked: arithmetic is Z (size_t operands are non-negative; `-` adds 2^64 when it would go below 0), comparisons / logic are bool.  Raises PredError."""
    tok_rx = re.compile(r'\s*(sizeof\s*\(\s*T\s*\)|sizeof\s*\(\s*(?:const\s+)?void\s*(?:const\s*)?\*\s*\)|0[xX][0-9a-fA-F]+[uUlL]*|\d+[uUlL]*|<=|>=|==|!=|&&|\|\||[-+*/%<>!()])')
    toks = []
    pos = 0
    txt = txt.strip()
    while pos < len(txt):
        m = tok_rx.match(txt, pos)
        if not m:
            raise PredError('unexpected text %r' % txt[pos:pos + 20])
        t = re.sub(r'\s+', '', m.group(1))
        toks.append(t)
        pos = m.end()
    i = [0]

    def peek():
        return toks[i[0]] if i[0] < len(toks) else None

    def eat(t=None):
        x = peek()
        if x is None or (t is not None and x != t):
            raise PredError('expected %r, found %r' % (t, x))
        i[0] += 1
        return x

    def as_bool(e):
        return e[0] if e[1] == 'b' else '(negb (%s =? 0))' % e[0]

    def as_int(e):
        if e[1] not in ('z', 'i'):
            raise PredError('a truth value is used as a number')
        return e[0]

    def p_or():
        e = p_and()
        while peek() == '||':
            eat()
            r = p_and()
            e = ('(%s || %s)' % (as_bool(e), as_bool(r)), 'b')
        return e

    def p_and():
        e = p_cmp()
        while peek() == '&&':
            eat()
            r = p_cmp()
            e = ('(%s && %s)' % (as_bool(e), as_bool(r)), 'b')
        return e

    def p_cmp():
        e = p_sum()
        if peek() in ('<=', '<', '>=', '>', '==', '!='):
            o = eat()
            r = p_sum()
            a, b = as_int(e), as_int(r)
            e = ({'<=': '(%s <=? %s)', '<': '(%s <? %s)', '>=': '(%s >=? %s)', '>': '(%s >? %s)', '==': '(%s =? %s)', '!=': '(negb (%s =? %s))'}[o] % (a, b), 'b')
            if peek() in ('<=', '<', '>=', '>', '==', '!='):
                raise PredError('chained comparison')
        return e

    def p_sum():
        e = p_term()
        while peek() in ('+', '-'):
            o = eat()
            r = p_term()
            a, b = as_int(e), as_int(r)
            lit = e[1] == 'i' and r[1] == 'i'          # int literals only: plain int arithmetic
            if o == '+':
                e = ('(%s + %s)' % (a, b), 'i' if lit else 'z')
            elif lit:
                e = ('(%s - %s)' % (a, b), 'i')
            else:
                # size_t subtraction: exact when a >= b, otherwise 2^64 is added (unsigned wrap-around; LP64: static_assert in the harness)
                e = ('((%s - %s) + 18446744073709551616 * Z.b2z (%s <? %s))' % (a, b, a, b), 'z')
        return e

    def p_term():
        e = p_un()
        while peek() in ('*', '/', '%'):
            o = eat()
            r = p_un()
            e = ('(%s %s %s)' % (as_int(e), {'*': '*', '/': '/', '%': 'mod'}[o], as_int(r)), 'i' if (e[1] == 'i' and r[1] == 'i') else 'z')
        return e

    def p_un():
        if peek() == '!':
            eat()
            return ('(negb %s)' % as_bool(p_un()), 'b')
        return p_atom()

    def p_atom():
        t = eat()
        if t == '(':
            e = p_or()
            eat(')')
            return e
        if t == 'sizeof(T)':
            return ('size', 'z')
        if t.startswith('sizeof('):
            return ('word', 'z')
        if re.match(r'^(0[xX][0-9a-fA-F]+|\d+)[uUlL]*$', t):
            return ('%d' % int(re.sub(r'[uUlL]+$', '', t), 0), 'i' if re.match(r'^(0[xX][0-9a-fA-F]+|\d+)$', t) else 'z')
        raise PredError('unexpected token %r' % t)

    e = p_or()
    if peek() is not None:
        raise PredError('trailing token %r' % peek())
    return as_bool(e), ' '.join(toks)


def generate(repo):
    probs = []
    C = {}
    L = ['Require Import ZArith Bool.', 'Local Open Scope Z_scope.']
    try:
        d = strip(rd(repo, 'potassco/program_opts/detail/value_store.h'))
        h = strip(rd(repo, 'potassco/program_opts/value_store.h'))
        c = strip(rd(repo, 'src/value_store.cpp'))
        r = strip(rd(repo, 'potassco/program_opts/detail/refcountable.h'))
    except OSError as e:
        return None, {}, [str(e)]

    # in-place rule: the whole predicate, as a function of (sizeof(T), sizeof(void*))
    m = re.search(r'inline\s+vptr_type\s+vtable\s*\(\s*const\s+T\s*\*\s*x\s*\)\s*\{\s*return\s+vtable_select\s*\(\s*bool2type\s*<(.+?)>\s*\(\s*\)\s*,\s*x\s*\)\s*;\s*\}', d, re.S)
    coq = None
    if m:
        try:
            coq, norm_txt = pred_to_coq(m.group(1))
            C['in_place'] = norm_txt
        except PredError as e:
            probs.append('detail::vtable(): in-place predicate %r is not a size expression the translator knows (%s)' % (' '.join(m.group(1).split()), e))
    else:
        probs.append('anchor not found: detail::vtable() -> vtable_select(bool2type< PREDICATE over sizeof(T), sizeof(void*) >(), x)')
    if coq is not None:
        L.append('Definition in_place (size word : Z) : bool := %s. (* vtable(): bool2type< %s > *)' % (coq, C['in_place'].replace('*)', '* )')))
    else:
        L.append('Definition in_place (size word : Z) : bool := (size <=? word). (* ANCHOR MISSING *)')
    # adopted objects always use the heap vtable
    m = re.search(r'inline\s+vptr_type\s+base_vtable\s*\(\s*const\s+T\s*\*\s*x\s*\)\s*\{\s*return\s+vtable_select\s*\(\s*bool2type\s*<\s*(\w+)\s*>\s*\(\s*\)\s*,\s*x\s*\)\s*;\s*\}', d)
    if m and m.group(1) in ('0', 'false', '1', 'true'):
        v = m.group(1) in ('1', 'true')
        C['base_inplace'] = v
        L.append('Definition base_inplace : bool := %s. (* base_vtable: bool2type %s *)' % ('true' if v else 'false', m.group(1)))
    else:
        probs.append('anchor not found: detail::base_vtable() -> vtable_select(bool2type<0>(), x)')
        L.append('Definition base_inplace : bool := false. (* ANCHOR MISSING *)')
    # which table each selector returns, and the extract tags of the two tables
    sel = {}
    for b in ('0', '1'):
        m = re.search(r'vtable_select\s*\(\s*bool2type\s*<\s*' + b + r'\s*>\s*,\s*const\s+T\s*\*\s*=\s*0\s*\)\s*\{\s*return\s*&\s*(\w+)\s*<\s*T\s*>\s*::\s*vtable_s\s*;', d)
        if m:
            sel[b] = m.group(1)
        else:
            probs.append('anchor not found: vtable_select(bool2type<%s>)' % b)
    tag = {}
    for t in ('VTable', 'OptVTable'):
        m = re.search(r'vtable_type\s+' + t + r'\s*<\s*T\s*>\s*::\s*vtable_s\s*=\s*\{\s*(\(\s*vcall_type\s*\)\s*)?(0x[0-9a-fA-F]+|\d+)\s*,\s*&\s*(\w+)<T>::clone\s*,\s*&\s*(\w+)<T>::destroy\s*,\s*&\s*(\w+)<T>::typeinfo', d)
        if m:
            tag[t] = int(m.group(2), 0)
            if m.group(3) != t or m.group(4) != t:
                probs.append('%s::vtable_s does not pair its own clone/destroy (%s/%s)' % (t, m.group(3), m.group(4)))
        else:
            probs.append('anchor not found: %s<T>::vtable_s initialiser' % t)
    # clone/destroy bodies: VTable uses new/delete, OptVTable placement new / explicit destructor call
    body = {
        'VTable': (r'\*out\s*=\s*new\s+T\s*\(\s*\*\s*static_cast<const\s+T\*>\(o\)\s*\)\s*;', r'delete\s+static_cast<const\s+T\*>\(o\)\s*;'),
        'OptVTable': (r'new\s*\(\s*&\*out\s*\)\s*T\s*\(\s*\*\s*static_cast<const\s+T\*>\(o\)\s*\)\s*;', r'static_cast<const\s+T\*>\(o\)->~T\(\)\s*;'),
    }
    for t, (cl, de) in body.items():
        m = re.search(r'struct\s+' + t + r'\s*\{(.*?)static\s+vtable_type\s+vtable_s\s*;', d, re.S)
        if not m or not re.search(cl, m.group(1)) or not re.search(de, m.group(1)):
            probs.append('anchor not found: %s<T>::clone/destroy body' % t)
    # extract(): tag 0 = heap
    m = re.search(r'void\s*\*\s*ValueStore::extract\s*\(\s*void\s*\*\*\s*v\s*\)\s*const\s*\{\s*if\s*\(\s*\(\*vptr_\)\[call_extract\]\s*==\s*0\s*\)\s*\{\s*return\s*\*v\s*;\s*\}\s*return\s+reinterpret_cast<void\*>\(v\)\s*;', c)
    if not m:
        probs.append('anchor not found: ValueStore::extract (tag 0 -> *v, else the slot address)')
    m = re.search(r'enum\s*\{\s*call_extract\s*=\s*(\d+)\s*,\s*vcall_clone\s*=\s*(\d+)\s*,\s*vcall_destroy\s*=\s*(\d+)\s*,\s*vcall_typeid\s*=\s*(\d+)\s*\}', h)
    if m:
        C['slots'] = [int(x) for x in m.groups()]
        if C['slots'] != [0, 1, 2, 3]:
            probs.append('ValueStore vtable slot numbering changed: %r (tables are initialised in the order extract-tag, clone, destroy, typeinfo)' % (C['slots'],))
    else:
        probs.append('anchor not found: ValueStore enum { call_extract, vcall_clone, vcall_destroy, vcall_typeid }')
    # checked typed access: the test is identity of the two type_info objects, in both forms
    ws = r'\s*'
    ex_ref = r'\*' + ws + r'static_cast' + ws + r'<' + ws + r'const\s+T' + ws + r'\*' + ws + r'>' + ws + r'\(' + ws + r'const_cast' + ws + r'<' + ws + r'const\s+void' + ws + r'\*' + ws + r'>' + ws + r'\(' + ws + r'v' + ws + r'\.' + ws + r'extract_raw' + ws + r'\(' + ws + r'\)' + ws + r'\)' + ws + r'\)'
    ex_ptr = ex_ref[len(r'\*' + ws):].replace(r'v' + ws + r'\.' + ws + r'extract_raw', r'v' + ws + r'->' + ws + r'extract_raw')

    def cast_anchor(what, head_rx, acc, ret_rx, fail_rx):
        m = re.search(head_rx + ws + r'\{' + ws + r'if' + ws + r'\((.*?)\)' + ws + r'\{' + ws + r'return\s*' + ret_rx + ws + r';' + ws + r'\}' + ws + fail_rx + ws + r'\}', h, re.S)
        if not m:
            probs.append('anchor not found: %s { if (<type test>) { return <the stored object as const T>; } <type error> }' % what)
            return
        cond = re.sub(r'\s+', '', m.group(1))
        ty = 'v%stype()' % acc
        if cond not in (ty + '==typeid(T)', 'typeid(T)==' + ty):
            probs.append('%s: the type test is %r, not the identity of the two std::type_info objects (`%s == typeid(T)`): the model compares types, '
                         'and two distinct types may share a type_info::name() (internal-linkage types of the same spelling in two translation units)'
                         % (what, ' '.join(m.group(1).split()), 'v%stype()' % acc))
        else:
            C.setdefault('value_cast_test', []).append(cond)

    cast_anchor('value_cast(const ValueStore&)',
                r'const\s+T' + ws + r'&' + ws + r'value_cast' + ws + r'\(' + ws + r'const\s+ValueStore' + ws + r'&' + ws + r'v' + ws + r',' + ws + r'const\s+T' + ws + r'\*' + ws + r'=' + ws + r'0' + ws + r'\)',
                '.', ex_ref, r'throw\s+bad_value_cast' + ws + r'\(' + ws + r'\)' + ws + r';')
    cast_anchor('value_cast(const ValueStore*)',
                r'const\s+T' + ws + r'\*' + ws + r'value_cast' + ws + r'\(' + ws + r'const\s+ValueStore' + ws + r'\*' + ws + r'v' + ws + r',' + ws + r'const\s+T' + ws + r'\*' + ws + r'=' + ws + r'0' + ws + r'\)',
                '->', ex_ptr, r'return\s+0' + ws + r';')
    # the non-const forms only forward to the const ones
    if not re.search(r'T' + ws + r'&' + ws + r'value_cast' + ws + r'\(' + ws + r'ValueStore' + ws + r'&' + ws + r'v' + ws + r',' + ws + r'const\s+T' + ws + r'\*' + ws + r'p' + ws + r'=' + ws + r'0' + ws + r'\)' + ws + r'\{' + ws
                     + r'return\s+const_cast' + ws + r'<' + ws + r'T' + ws + r'&' + ws + r'>' + ws + r'\(' + ws + r'value_cast' + ws + r'\(' + ws + r'const_cast' + ws + r'<' + ws + r'const\s+ValueStore' + ws + r'&' + ws + r'>' + ws + r'\(' + ws + r'v' + ws + r'\)' + ws + r',' + ws + r'p' + ws + r'\)' + ws + r'\)' + ws + r';' + ws + r'\}', h):
        probs.append('anchor not found: value_cast(ValueStore&) forwards to value_cast(const ValueStore&)')
    if not re.search(r'T' + ws + r'\*' + ws + r'value_cast' + ws + r'\(' + ws + r'ValueStore' + ws + r'\*' + ws + r'v' + ws + r',' + ws + r'const\s+T' + ws + r'\*' + ws + r'p' + ws + r'=' + ws + r'0' + ws + r'\)' + ws + r'\{' + ws
                     + r'return\s+const_cast' + ws + r'<' + ws + r'T' + ws + r'\*' + ws + r'>' + ws + r'\(' + ws + r'value_cast' + ws + r'\(' + ws + r'const_cast' + ws + r'<' + ws + r'const\s+ValueStore' + ws + r'\*' + ws + r'>' + ws + r'\(' + ws + r'v' + ws + r'\)' + ws + r',' + ws + r'p' + ws + r'\)' + ws + r'\)' + ws + r';' + ws + r'\}', h):
        probs.append('anchor not found: value_cast(ValueStore*) forwards to value_cast(const ValueStore*)')
    # type(): the vtable's typeid slot answers with the address of typeid(T)
    if not re.search(r'const\s+std::type_info' + ws + r'&' + ws + r'ValueStore::type' + ws + r'\(' + ws + r'\)' + ws + r'const' + ws + r'\{' + ws + r'if' + ws + r'\(' + ws + r'!' + ws + r'empty' + ws + r'\(' + ws + r'\)' + ws + r'\)' + ws + r'\{' + ws
                     + r'void' + ws + r'\*' + ws + r'x' + ws + r';' + ws + r'\(' + ws + r'\*' + ws + r'vptr_' + ws + r'\)' + ws + r'\[' + ws + r'vcall_typeid' + ws + r'\]' + ws + r'\(' + ws + r'0' + ws + r',' + ws + r'&' + ws + r'x' + ws + r'\)' + ws + r';' + ws
                     + r'return' + ws + r'\*' + ws + r'static_cast' + ws + r'<' + ws + r'const\s+std::type_info' + ws + r'\*' + ws + r'>' + ws + r'\(' + ws + r'x' + ws + r'\)' + ws + r';' + ws + r'\}', c):
        probs.append('anchor not found: ValueStore::type() { if (!empty()) { void* x; (*vptr_)[vcall_typeid](0, &x); return *static_cast<const std::type_info*>(x); } ... }')
    if not re.search(r'static\s+void\s+typeinfo' + ws + r'\(' + ws + r'const\s+void' + ws + r'\*' + ws + r',' + ws + r'void' + ws + r'\*\*' + ws + r'out' + ws + r'\)' + ws + r'\{' + ws + r'\*' + ws + r'out' + ws + r'=' + ws
                     + r'const_cast' + ws + r'<' + ws + r'void' + ws + r'\*' + ws + r'>' + ws + r'\(' + ws + r'static_cast' + ws + r'<' + ws + r'const\s+void' + ws + r'\*' + ws + r'>' + ws + r'\(' + ws + r'&' + ws + r'typeid' + ws + r'\(' + ws + r'T' + ws + r'\)' + ws + r'\)' + ws + r'\)' + ws + r';' + ws + r'\}', d):
        probs.append('anchor not found: VTable<T>::typeinfo { *out = &typeid(T) }')
    # selector 0 must be the table whose tag says "heap" (0), selector 1 the one that says "in place" (!= 0)
    if len(sel) == 2 and len(tag) == 2:
        t0, t1 = tag.get(sel['0']), tag.get(sel['1'])
        C['select'] = sel
        C['tags'] = tag
        if t0 != 0 or t1 in (0, None):
            probs.append('vtable_select/extract tags inconsistent: bool2type<0> -> %s (tag %r), bool2type<1> -> %s (tag %r)' % (sel['0'], t0, sel['1'], t1))
        if sel['0'] != 'VTable' or sel['1'] != 'OptVTable':
            probs.append('vtable_select maps bool2type<0> to %s and bool2type<1> to %s (expected VTable / OptVTable)' % (sel['0'], sel['1']))
    # reference counts start at one
    m = re.search(r'RefCountable\s*\(\s*\)\s*:\s*refCount_\s*\(\s*(\d+)\s*\)', r)
    if m:
        C['rc_init'] = int(m.group(1))
        L.append('Definition rc_init : Z := %d. (* RefCountable: refCount_ starts at %s *)' % (int(m.group(1)), m.group(1)))
    else:
        probs.append('anchor not found: RefCountable() : refCount_(1)')
        L.append('Definition rc_init : Z := 1. (* ANCHOR MISSING *)')
    # the counter's declared type and the types its value is returned through
    rng = {}

    def typed(what, rx, text, fallback='int'):
        m = re.search(rx, text)
        t = int_type(m.group(1)) if m else None
        if not m:
            probs.append('anchor not found: %s' % what)
        elif t is None:
            probs.append('%s: type %r is not an integer type the translator knows (the model needs the range of the reference counter)' % (what, ' '.join(m.group(1).split())))
        if t is None:
            t = int_type(fallback) + ('ANCHOR MISSING',)
        rng[what] = t
        return t

    st = typed('RefCountable::refCount_ declaration', TYPE_RX + r'refCount_\s*;', r)
    typed('RefCountable::addRef', TYPE_RX + r'addRef\s*\(\s*\)\s*\{\s*return\s*\+\+\s*refCount_\s*;\s*\}', r)
    rl = typed('RefCountable::release', TYPE_RX + r'release\s*\(\s*\)\s*\{\s*return\s*--\s*refCount_\s*;\s*\}', r)
    rc = typed('RefCountable::refCount', TYPE_RX + r'refCount\s*\(\s*\)\s*const\s*\{\s*return\s+refCount_\s*;\s*\}', r)
    ct = typed('IntrusiveSharedPtr::count', TYPE_RX + r'count\s*\(\s*\)\s*const\s*throw\s*\(\s*\)\s*\{\s*return\s+ptr_\s*\?\s*ptr_\s*->\s*refCount\s*\(\s*\)\s*:\s*0\s*;\s*\}', r)
    if not re.search(r'void\s+release\s*\(\s*\)\s*const\s*\{\s*if\s*\(\s*ptr_\s*&&\s*ptr_\s*->\s*release\s*\(\s*\)\s*==\s*0\s*\)\s*\{\s*delete\s+ptr_\s*;\s*\}\s*\}', r):
        probs.append('anchor not found: IntrusiveSharedPtr::release() { if (ptr_ && ptr_->release() == 0) { delete ptr_; } }')
    if not re.search(r'void\s+addRef\s*\(\s*\)\s*const\s*\{\s*if\s*\(\s*ptr_\s*\)\s*ptr_\s*->\s*addRef\s*\(\s*\)\s*;\s*\}', r):
        probs.append('anchor not found: IntrusiveSharedPtr::addRef() { if (ptr_) ptr_->addRef(); }')

    def zlit(v):
        return '(%d)' % v if v < 0 else '%d' % v

    def emit(prefix, t, what):
        note = ' ANCHOR MISSING' if len(t) > 4 else ''
        L.append('Definition %s_min : Z := %s. (* %s: %s%s *)' % (prefix, zlit(t[1]), what, t[0], note))
        L.append('Definition %s_max : Z := %s.' % (prefix, zlit(t[2])))

    emit('refcount', st, 'declared type of RefCountable::refCount_')
    L.append('Definition refcount_overflow_undefined : bool := %s. (* ++/-- beyond the range: %s *)'
             % (('true', 'undefined behaviour (signed, rank >= int)') if st[3] else ('false', 'wraps (computed in int / unsigned and converted back)')))
    emit('refcount_rel', rl, 'return type of RefCountable::release(), compared with 0 by IntrusiveSharedPtr::release()')
    emit('refcount_rc', rc, 'return type of RefCountable::refCount()')
    emit('refcount_cnt', ct, 'return type of IntrusiveSharedPtr::count()')
    bound = min(st[2], rl[2], rc[2], ct[2])
    L.append('Definition refcount_bound : Z := %s. (* the smallest of the four maxima *)' % zlit(bound))
    C['refcount'] = {'type': st[0], 'min': st[1], 'max': st[2], 'overflow_undefined': st[3], 'release': rl[0], 'refCount': rc[0], 'count': ct[0], 'bound': bound}
    return '\n'.join(L) + '\n', C, probs


if __name__ == '__main__':
    import sys
    t, c, p = generate(sys.argv[1] if len(sys.argv) > 1 else '/repo')
    print(t)
    print(c)
    print(p)
