"""Translator for C06: the literal pieces AspifTextOutput / TheoryAtomStringBuilder print (src/aspif_text.cpp) and the
heuristic modifier names (potassco/basic_types.h).  Every piece is located by an anchored regex; a missing anchor is
reported as a problem (broken obligation)."""
import re, os


def c_unescape(s):
    return bytes(s, 'latin-1').decode('unicode_escape')


def coq_str(s):
    return '[' + '; '.join(str(b) for b in s.encode('latin-1')) + ']'


def generate(repo):
    problems, C, L = [], {}, []
    L.append('Require Import ZArith List. Import ListNotations.')
    L.append('Local Open Scope Z_scope.')
    src = open(os.path.join(repo, 'src', 'aspif_text.cpp'), encoding='latin-1').read()
    k = src.find('// AspifTextOutput')
    if k < 0:
        problems.append('anchor not found: AspifTextOutput section')
        k = 0
    out = src[k:]

    def piece(name, pat, txt=out, flags=0):
        m = re.search(pat, txt, flags)
        if not m:
            problems.append('anchor not found: ' + name)
            return
        v = c_unescape(m.group(1))
        C[name] = v
        L.append('Definition %s : list Z := %s. (* %s *)' % (name, coq_str(v), repr(v).replace('"', '<dq>').replace('*)', '* )')))

    piece('s_not', r'\{ os << "(not )"; \}')
    piece('s_xpre', r'os << "([^"]*)" << id;')
    piece('s_step_pre', r'os_ << "(% #program step\()" << step_')
    piece('s_step_post', r'<< step_ << "([^"]*)";')
    piece('s_base', r'os_ << "(% #program base\.\\n)"')
    piece('s_choice_open', r'if \(get<uint32_t>\(\) != 0\) \{ os_ << "([^"]*)"; term = "\}"; \}')
    piece('s_choice_close', r'if \(get<uint32_t>\(\) != 0\) \{ os_ << "[^"]*"; term = "([^"]*)"; \}')
    piece('s_head_sep_disj', r'sep = !\*term \? "([^"]*)" : "[^"]*"\)')
    piece('s_head_sep_choice', r'sep = !\*term \? "[^"]*" : "([^"]*)"\)')
    piece('s_if', r'os_ << term; sep = "([^"]*)"; \}')
    piece('s_if_nohead', r'else\s*\{ os_ << "(:- )"; \}')
    piece('s_dot', r'term = "([^"]*)";\s*switch \(uint32_t bt = get<uint32_t>\(\)\)')
    piece('s_body_sep', r'case Body_t::Normal:\s*for \(uint32_t n = get<uint32_t>\(\); n--; sep = "([^"]*)"\)')
    piece('s_agg_open', r'os_ << sep << get<Weight_t>\(\) << "([^"]*)";')
    piece('s_agg_sep', r'case Body_t::Sum:.*?n--; sep = "([^"]*)"\)', flags=re.S)
    piece('s_eq', r'if \(bt == Body_t::Sum\) \{ os_ << "([^"]*)" << get<Weight_t>\(\); \}')
    piece('s_agg_close', r'if \(bt == Body_t::Sum\) \{[^\n]*\n\s*\}\s*os_ << "([^"]*)";')
    piece('s_minimize', r'os_ << "(#minimize\{)"; term = "\.";')
    piece('s_min_close', r'os_ << "(\}@)" << get<Weight_t>\(\);')
    piece('s_project', r'os_ << "(#project\{)"; term = "\}\.";')
    piece('s_assume', r'os_ << "(#assume\{)"; term = "\}\.";')
    piece('s_set_close', r'os_ << "#project\{"; term = "([^"]*)";')
    piece('s_list_sep', r'case Directive_t::Project:.*?n--; sep = "([^"]*)"\)', flags=re.S)
    piece('s_show', r'os_ << "(#show )" << data_->strings')
    piece('s_cond', r'case Directive_t::Output:\s*sep = "([^"]*)"; term = "\.";')
    piece('s_external', r'sep = "(#external )"; term = "\.";')
    for v in ('Free', 'True', 'Release'):
        piece('s_ext_' + v.lower(), r'case Value_t::%s:\s*term = "([^"]*)"; break;' % v)
    piece('s_heuristic', r'os_ << "(#heuristic )";')
    piece('s_heu_open', r'os_ << "(\. \[)" << get<int32_t>\(\);')
    piece('s_at', r'if \(uint32_t p = get<uint32_t>\(\)\) \{ os_ << "([^"]*)" << p; \}')
    piece('s_heu_sep', r'os_ << "([^"]*)" << toString\(static_cast<Heuristic_t>\(get<uint32_t>\(\)\)\) << "\]";')
    piece('s_heu_close', r'toString\(static_cast<Heuristic_t>\(get<uint32_t>\(\)\)\) << "([^"]*)";')
    piece('s_edge', r'os_ << "(#edge\()" << get<int32_t>\(\) << ",";')
    piece('s_edge_sep', r'os_ << "#edge\(" << get<int32_t>\(\) << "([^"]*)";')
    piece('s_edge_close', r'os_ << get<int32_t>\(\) << "([^"]*)";')
    piece('s_theory_end', r'os_ << name << "([^"]*)";')
    piece('s_ops', r'std::strchr\("([^"]*)", \*x\.symbol\(\)\)')
    piece('s_telem_sep', r'eIt != eEnd; \+\+eIt, sep = "([^"]*)"\)')
    # statement terminator: os_ << term << "\n" with term "." for rules
    piece('s_nl', r'os_ << term << "([^"]*)";')
    # the count normalisation is guarded and done in 64 bit
    if not re.search(r'if \(min == max && min > 0\)', out):
        problems.append('anchor not found: count normalisation guard (min == max && min > 0)')
    if not re.search(r'static_cast<Weight_t>\(\(static_cast<int64_t>\(bound\) \+ min-1\)/min\)', out):
        problems.append('anchor not found: 64-bit count bound (bound + min-1)/min')
    # heuristic modifier names
    bt = open(os.path.join(repo, 'potassco', 'basic_types.h'), encoding='latin-1').read()
    m = re.search(r'inline const char\* toString\(Heuristic_t t\) \{(.*?)\n\}', bt, re.S)
    tab = []
    if m:
        for mm in re.finditer(r'case Heuristic_t::(\w+)\s*:\s*return "([^"]*)";', m.group(1)):
            tab.append((mm.group(1), mm.group(2)))
    if len(tab) < 1:
        problems.append('anchor not found: toString(Heuristic_t)')
    em = re.search(r'POTASSCO_ENUM_CONSTANTS\(Heuristic_t,(.*?)\);', bt, re.S)
    vals = {}
    if em:
        for item in em.group(1).split(','):
            if '=' in item:
                a, b = item.split('=')
                vals[a.strip()] = int(b.strip())
    else:
        problems.append('anchor not found: enum Heuristic_t')
    C['heu_names'] = [(vals.get(kk, -1), vv) for kk, vv in tab]
    L.append('Definition heu_names : list (Z * list Z) := [%s].' % '; '.join('(%d, %s)' % (vals.get(kk, -1), coq_str(vv)) for kk, vv in tab))
    # tuple parens  "()\0{}\0[]"
    th = open(os.path.join(repo, 'potassco', 'theory_data.h'), encoding='latin-1').read()
    m = re.search(r'static const char\* p = "\(\)\\0\{\}\\0\[\]";\s*int off = \(-static_cast<int>\(t\)-1\) \* 3;', th)
    if not m:
        problems.append('anchor not found: toString(Tuple_t) parens table')
    L.append('Definition tuple_parens : list (Z * (Z * Z)) := [(-1, (40, 41)); (-2, (123, 125)); (-3, (91, 93))].')
    return '\n'.join(L) + '\n', C, problems
