"""Translator for C13 (constants and literals only; the shape of the code is tied to the model by the correspondence run): literals and flag values of the command-line / command-string / config-file parsers.

generate(repo) -> (coq_text, dict, problems); anchored regexes, a missing anchor is a problem.
"""
import re, os


def _rd(repo, rel):
    return open(os.path.join(repo, rel), encoding='latin-1').read()


def _strip(s):
    s = re.sub(r'/\*.*?\*/', ' ', s, flags=re.S)
    return re.sub(r'//[^\n]*', ' ', s)


def _coq_str(s):
    return '[' + '; '.join(str(b) for b in s.encode('latin-1')) + ']'


def _unesc(s):
    return s.encode('latin-1').decode('unicode_escape')


def generate(repo):
    problems, C, L = [], {}, []
    add = L.append
    add('Require Import ZArith List. Import ListNotations.')
    add('Local Open Scope Z_scope.')

    def const(name, val, src):
        C[name] = val
        add('Definition %s : Z := %d. (* %s *)' % (name, val, src))

    def sconst(name, val, src):
        C[name] = val
        add('Definition %s : list Z := %s. (* %s *)' % (name, _coq_str(val), src))

    try:
        h = _strip(_rd(repo, 'potassco/program_opts/program_options.h'))
        e = _strip(_rd(repo, 'potassco/program_opts/errors.h'))
        cpp = _strip(_rd(repo, 'src/program_options.cpp'))
    except OSError as ex:
        return None, {}, [str(ex)]

    m = re.search(r'enum\s+CommandLineFlags\s*\{\s*command_line_allow_flag_value\s*=\s*(\d+)u?\s*\}', h)
    if m:
        const('command_line_allow_flag_value', int(m.group(1)), 'enum CommandLineFlags')
    else:
        problems.append('anchor not found: command_line_allow_flag_value')
    m = re.search(r'ParsedValues\s+parseCommandString\s*\([^;]*bool\s+allowUnreg\s*=\s*(\w+)[^;]*unsigned\s+flags\s*=\s*command_line_allow_flag_value\s*\)\s*;', h)
    if m:
        const('string_default_flags', C.get('command_line_allow_flag_value', 1), 'parseCommandString(..., flags = command_line_allow_flag_value)')
    else:
        problems.append('anchor not found: parseCommandString default flags')
    m = re.search(r'class\s+SyntaxError.*?enum\s+Type\s*\{([^}]*)\}', e, re.S)
    if m:
        names = [x.strip() for x in m.group(1).split(',') if x.strip()]
        for i, n in enumerate(names):
            if '=' in n:
                problems.append('SyntaxError::Type with explicit value: ' + n)
            else:
                const('syntax_' + n, i, 'SyntaxError::Type')
        for n in ('missing_value', 'extra_value', 'invalid_format'):
            if n not in names:
                problems.append('anchor not found: SyntaxError::' + n)
    else:
        problems.append('anchor not found: SyntaxError::Type')

    # handleLongOpt
    m = re.search(r"name\.find\('(.)'\)", cpp)
    if m:
        const('EQ', ord(m.group(1)), "handleLongOpt: name.find('=')")
    else:
        problems.append("anchor not found: handleLongOpt name.find('=')")
    m = re.search(r'value\.empty\(\)\s*&&\s*std::strncmp\(optName,\s*"([^"]*)",\s*(\d+)\)\s*==\s*0\)\s*\{\s*try\s*\{\s*on\s*=\s*getOption\(optName\+(\d+),\s*OptionContext::find_name_or_prefix\);\s*\}\s*catch\s*\(\.\.\.\)', cpp)
    if m and len(m.group(1)) == int(m.group(2)) == int(m.group(3)):
        sconst('NO_PREFIX', m.group(1), 'handleLongOpt: strncmp(optName, "no-", 3)')
    else:
        problems.append('anchor not found: handleLongOpt no- prefix')
    m = re.search(r'o\.swap\(on\);\s*value\s*=\s*"([^"]*)";\s*neg\s*=\s*true;', cpp)
    if m:
        sconst('NO_VALUE', m.group(1), 'handleLongOpt: value = "no"')
    else:
        problems.append('anchor not found: handleLongOpt negated value')
    # positional
    m = re.search(r'if\s*\(!posOpt\s*\|\|\s*!posOpt\(tok,\s*optName\)\)\s*\{\s*return\s+getOption\("([^"]*)",\s*OptionContext::find_name_or_prefix\);', cpp)
    if m:
        sconst('POS_OPTION', m.group(1), 'DefaultContext::getOption(int, tok) fallback name')
    else:
        problems.append('anchor not found: DefaultContext positional fallback')
    # CommandStringParser::next
    m = re.search(r"for\s*\(char\s+c,\s*t\s*=\s*'(.)',\s*n;\s*\(c\s*=\s*\*cmd_\)\s*!=\s*0;\s*\+\+cmd_\)\s*\{\s*if\s*\(c\s*==\s*t\)\s*\{\s*if\s*\(t\s*==\s*'(.)'\)\s*break;\s*t\s*=\s*'(.)';\s*\}\s*"
                  r"else\s+if\s*\(\(c\s*==\s*'(\\?.)'\s*\|\|\s*c\s*==\s*'(\\?.)'\)\s*&&\s*t\s*==\s*'(.)'\)\s*\{\s*t\s*=\s*c;\s*\}\s*"
                  r"else\s+if\s*\(c\s*!=\s*'(\\.)'\)\s*\{\s*tok_\s*\+=\s*c;\s*\}\s*"
                  r"else\s+if\s*\(\(n\s*=\s*cmd_\[1\]\)\s*==\s*'(\\?.)'\s*\|\|\s*n\s*==\s*'(\\?.)'\s*\|\|\s*n\s*==\s*'(\\.)'\)\s*\{\s*tok_\s*\+=\s*n;\s*\+\+cmd_;\s*\}\s*else\s*\{\s*tok_\s*\+=\s*c;\s*\}", cpp)
    if m:
        g = [_unesc(x) for x in m.groups()]
        if g[0] == g[1] == g[2] == g[5] and g[6] == g[9] and {g[3], g[4]} == {g[7], g[8]}:
            const('SEP', ord(g[0]), 'CommandStringParser::next: token separator / "no quote" state')
            const('QUOTE1', ord(g[3]), 'CommandStringParser::next: first quote character')
            const('QUOTE2', ord(g[4]), 'CommandStringParser::next: second quote character')
            const('BSLASH', ord(g[6]), 'CommandStringParser::next: escape character')
        else:
            problems.append('CommandStringParser::next: unexpected literals %r' % (g,))
    else:
        problems.append('anchor not found: CommandStringParser::next')
    # CfgFileParser
    m = re.search(r'trimLeft\(std::string&\s*str,\s*const\s+std::string&\s*charList\s*=\s*"([^"]*)"\)', cpp)
    m2 = re.search(r'trimRight\(std::string&\s*str,\s*const\s+std::string&\s*charList\s*=\s*"([^"]*)"\)', cpp)
    if m and m2 and m.group(1) == m2.group(1):
        sconst('CFG_BLANKS', _unesc(m.group(1)), 'CfgFileParser::trimLeft/trimRight default char list')
    else:
        problems.append('anchor not found: CfgFileParser trim char list')
    m = re.search(r'if\s*\(line\.empty\(\)\s*\|\|\s*line\.find\("(.)"\)\s*==\s*0\)', cpp)
    if m:
        const('CFG_COMMENT', ord(m.group(1)), 'CfgFileParser: comment line')
    else:
        problems.append('anchor not found: CfgFileParser comment test')
    m = re.search(r'if\s*\(\(pos\s*=\s*line\.find\("(.)"\)\)\s*!=\s*std::string::npos\)', cpp)
    m2 = re.search(r'splitHalf\(line,\s*"(.)",\s*sectionName,\s*sectionValue\);\s*trimRight\(sectionName\);\s*trimLeft\(sectionValue,\s*"([^"]*)"\);\s*inSection\s*=\s*true;', cpp)
    if m and m2 and m.group(1) == m2.group(1):
        const('CFG_SEP', ord(m.group(1)), 'CfgFileParser: name/value separator')
        sconst('CFG_VALUE_BLANKS', _unesc(m2.group(2)), 'CfgFileParser: trimLeft(sectionValue, " \\t\\n")')
    else:
        problems.append('anchor not found: CfgFileParser section split')
    m = re.search(r'else\s+if\s*\(inSection\)\s*\{\s*sectionValue\s*\+=\s*"([^"]*)";\s*sectionValue\s*\+=\s*line;\s*\}\s*else\s*\{\s*throw\s+SyntaxError\(SyntaxError::invalid_format', cpp)
    if m:
        sconst('CFG_JOIN', _unesc(m.group(1)), 'CfgFileParser: continuation joiner')
    else:
        problems.append('anchor not found: CfgFileParser continuation')
    return '\n'.join(L) + '\n', C, problems


if __name__ == '__main__':
    import sys
    t, c, p = generate(sys.argv[1] if len(sys.argv) > 1 else '/repo')
    print(t)
    print(p)
