"""Translator for C01/C03: the literals of the aspif reader/writer (src/aspif.cpp) the Coq models depend on, and a check
that every directive writer still emits its fields in the modelled order (the sequence of add(...) calls) and every
reader case consumes them in the modelled order.  An anchor that is not found / an order that changed is a problem."""
import re, os


def _rd(repo, rel):
    return open(os.path.join(repo, rel), encoding='latin-1').read()


def _strip(s):
    s = re.sub(r'/\*.*?\*/', ' ', s, flags=re.S)
    return re.sub(r'//[^\n]*', ' ', s)


def _coq_str(s):
    return '[' + '; '.join(str(b) for b in s.encode('latin-1')) + ']'


# modelled field order of the writers (coq/C01/Write.v write_call): method signature fragment -> add(...) arguments
WRITERS = [
    ('rule(Head_t ht, const AtomSpan& head, const LitSpan& body)', 'Rule', ['static_cast<int>(ht)', 'head', 'static_cast<int>(Body_t::Normal)', 'body']),
    ('rule(Head_t ht, const AtomSpan& head, Weight_t bound, const WeightLitSpan& body)', 'Rule',
     ['static_cast<int>(ht)', 'head', 'static_cast<int>(Body_t::Sum)', 'static_cast<int>(bound)', 'body']),
    ('minimize(Weight_t prio, const WeightLitSpan& lits)', 'Minimize', ['prio', 'lits']),
    ('output(const StringSpan& str, const LitSpan& cond)', 'Output', ['str', 'cond']),
    ('external(Atom_t a, Value_t v)', 'External', ['static_cast<int>(a)', 'static_cast<int>(v)']),
    ('assume(const LitSpan& lits)', 'Assume', ['lits']),
    ('project(const AtomSpan& atoms)', 'Project', ['atoms']),
    ('acycEdge(int s, int t, const LitSpan& cond)', 'Edge', ['s', 't', 'cond']),
    ('heuristic(Atom_t a, Heuristic_t t, int bias, unsigned prio, const LitSpan& cond)', 'Heuristic',
     ['static_cast<int>(t)', 'static_cast<int>(a)', 'bias', 'static_cast<int>(prio)', 'cond']),
    ('theoryTerm(Id_t termId, int number)', 'Theory', ['Theory_t::Number', 'termId', 'number']),
    ('theoryTerm(Id_t termId, const StringSpan& name)', 'Theory', ['Theory_t::Symbol', 'termId', 'name']),
    ('theoryTerm(Id_t termId, int cId, const IdSpan& args)', 'Theory', ['Theory_t::Compound', 'termId', 'cId', 'args']),
    ('theoryElement(Id_t elementId, const IdSpan& terms, const LitSpan& cond)', 'Theory', ['Theory_t::Element', 'elementId', 'terms', 'cond']),
    ('theoryAtom(Id_t atomOrZero, Id_t termId, const IdSpan& elements)', 'Theory', ['Theory_t::Atom', 'atomOrZero', 'termId', 'elements']),
    ('theoryAtom(Id_t atomOrZero, Id_t termId, const IdSpan& elements, Id_t op, Id_t rhs)', 'Theory',
     ['Theory_t::AtomWithGuard', 'atomOrZero', 'termId', 'elements', 'op', 'rhs']),
]

# modelled order of the match calls in every case of AspifInput::doParse / matchTheory (coq/C01/Read.v directive / theory)
READERS = [
    ('case CR(Rule):', 'break;}', ['matchPos(Head_t::eMax', 'matchAtoms()', 'matchPos(Body_t::eMax', 'matchLits()', 'matchInt()', 'matchWLits(0)']),
    ('case CR(Minimize):', 'break;', ['matchInt()', 'matchWLits(INT_MIN)']),
    ('case CR(Project):', 'break;', ['matchAtoms()']),
    ('case CR(Output):', 'break;}', ['matchString()', 'matchLits()']),
    ('case CR(External):', 'break;', ['matchAtom()', 'matchPos(Value_t::eMax']),
    ('case CR(Assume):', 'break;', ['matchLits()']),
    ('case CR(Heuristic):', 'break;}', ['matchPos(Heuristic_t::eMax', 'matchAtom()', 'matchInt()', 'matchPos(INT_MAX', 'matchLits()']),
    ('case CR(Edge):', 'break;}', ['matchPos(INT_MAX', 'matchPos(INT_MAX', 'matchLits()']),
    ('case Theory_t::Number:', 'break;', ['matchInt()']),
    ('case Theory_t::Symbol:', 'break;', ['matchString()']),
    ('case Theory_t::Compound:', 'break;', ['matchInt(Tuple_t::eMin, INT_MAX', 'matchIds()']),
    ('case Theory_t::Element:', 'break;', ['matchIds()', 'matchLits()']),
    ('case Theory_t::AtomWithGuard:', 'break;', ['matchPos()', 'matchIds()', 'matchPos()', 'matchPos()']),
]


def _args(chain):
    """arguments of the .add(...) calls of a chain, respecting nested parentheses"""
    out, i = [], 0
    while True:
        k = chain.find('.add(', i)
        if k < 0:
            return out
        j, depth = k + 5, 1
        while depth and j < len(chain):
            depth += {'(': 1, ')': -1}.get(chain[j], 0)
            j += 1
        out.append(re.sub(r'\s+', ' ', chain[k + 5:j - 1].strip()))
        i = j


def generate(repo):
    problems, C, L = [], {}, []
    L.append('Require Import ZArith List. Import ListNotations.')
    L.append('Local Open Scope Z_scope.')

    def const(name, val, src):
        C[name] = val
        L.append('Definition %s : Z := %d. (* %s *)' % (name, val, src))

    def bytes_(name, s, src):
        C[name] = s
        L.append('Definition %s : list Z := %s. (* %s : %r *)' % (name, _coq_str(s), src, s))
    try:
        a = _strip(_rd(repo, 'src/aspif.cpp'))
        # ---- reader literals ----
        m = re.search(r'if\s*\(\s*!match\("([^"]*)"\)\s*\)\s*\{\s*return\s+false;', a)
        if m:
            bytes_('rd_tok_magic', m.group(1), 'AspifInput::doAttach match(...)')
        else:
            problems.append('anchor not found: doAttach match("asp ")')
        for nm, msg in (('rd_major', 'unsupported major version'), ('rd_minor', 'unsupported minor version')):
            m = re.search(r'require\(\s*matchPos\(\)\s*==\s*(\d+)\s*,\s*"' + msg + '"', a)
            if m:
                const(nm, int(m.group(1)), 'doAttach require(matchPos() == k, "%s")' % msg)
            else:
                problems.append('anchor not found: ' + msg)
        m = re.search(r'inc\s*=\s*match\("([^"]*)"\s*,\s*false\)', a)
        if m:
            bytes_('rd_tok_incremental', m.group(1), 'doAttach inc = match(..., false)')
        else:
            problems.append('anchor not found: match("incremental", false)')
        m = re.search(r'while\s*\(\s*match\("( )"\s*,\s*false\)\s*\)', a)
        if not m:
            problems.append('anchor not found: while (match(" ", false))')
        m = re.search(r'uint32_t\s+len\s*=\s*matchPos\(\s*(static_cast<unsigned>\(INT_MAX\)\s*,\s*)?"non-negative string length expected"\)', a)
        if m:
            const('rd_str_max', 2 ** 31 - 1 if m.group(1) else 2 ** 32 - 1, 'matchString: upper bound of the announced length')
        else:
            problems.append('anchor not found: matchString length bound')
        m = re.search(r'require\(stream\(\)->copy\(.*?\(int\)len\)\s*==\s*\(int\)len', a, re.S)
        if not m:
            problems.append('anchor not found: matchString copy(...,(int)len) == (int)len')
        m = re.search(r'matchPos\(Directive_t::eMax\s*,', a)
        if not m:
            problems.append('anchor not found: directive code matchPos(Directive_t::eMax, ...)')
        # ---- reader cases: order of the match calls ----
        body = a[a.find('bool AspifInput::doParse()'):a.find('int readAspif(')]
        for start, stop, want in READERS:
            k = body.find(start)
            if k < 0:
                problems.append('anchor not found: reader ' + start)
                continue
            seg = body[k:body.find(stop, k)]
            pos, ok = 0, True
            for w in want:
                p = seg.find(w, pos)
                if p < 0:
                    ok = False
                    break
                pos = p + len(w)
            got = re.findall(r'match\w*\([^;{}]*?\)', seg)
            if not ok or len(re.findall(r'\bmatch(?:Pos|Int|Atom|Atoms|Lits|WLits|String|Ids|Lit)\(', seg)) != len(want):
                problems.append('reader case %s no longer matches the modelled field order %r (found %r)' % (start, want, got))
        # ---- writer: header, terminator, field order ----
        m = re.search(r'os_\s*<<\s*"(asp \d+ \d+ \d+)"\s*;', a)
        if m:
            bytes_('wr_header', m.group(1), 'AspifOutput::initProgram')
        else:
            problems.append('anchor not found: writer header')
        m = re.search(r'if\s*\(inc\)\s*os_\s*<<\s*"([^"]*)"\s*;', a)
        if m:
            bytes_('wr_incremental', m.group(1), 'AspifOutput::initProgram')
        else:
            problems.append('anchor not found: writer " incremental"')
        m = re.search(r'void\s+AspifOutput::endStep\(\)\s*\{\s*os_\s*<<\s*"0\\n"\s*;', a)
        if not m:
            problems.append('anchor not found: endStep "0\\n"')
        table = []
        for sig, dname, want in WRITERS:
            k = a.find('AspifOutput::' + sig)
            if k < 0:
                problems.append('anchor not found: writer ' + sig)
                continue
            seg = a[k:a.find('\n}', k)]
            mm = re.search(r'startDir\(Directive_t::(\w+)\)(.*)\.endDir\(\)', seg, re.S)
            if not mm:
                problems.append('anchor not found: startDir...endDir in ' + sig)
                continue
            got = _args(mm.group(2))
            table.append((sig, mm.group(1), got))
            if mm.group(1) != dname or got != want:
                problems.append('writer %s no longer emits the modelled fields %s %r (found %s %r)' % (sig, dname, want, mm.group(1), got))
        C['writer_fields'] = table
        # add overloads: how single numbers are printed
        if not re.search(r'AspifOutput::add\(int x\)\s*\{\s*os_\s*<<\s*" "\s*<<\s*x;', a):
            problems.append('anchor not found: add(int x) { os_ << " " << x; }')
        if not re.search(r'AspifOutput::add\(unsigned x\)\s*\{\s*os_\s*<<\s*" "\s*<<\s*x;', a):
            problems.append('anchor not found: add(unsigned x) (theory ids must be written unsigned)')
        if not re.search(r'os_\s*<<\s*" "\s*<<\s*size\(str\)\s*<<\s*" "\s*;\s*os_\.write\(begin\(str\),\s*size\(str\)\)', a):
            problems.append('anchor not found: add(const StringSpan&) layout')
    except OSError as e:
        problems.append(str(e))
    try:
        r = _strip(_rd(repo, 'src/rule_utils.cpp'))
        if not re.search(r'if\s*\(lit\.weight\s*==\s*0\)\s*\{\s*return\s+\*this;\s*\}', r):
            problems.append('anchor not found: RuleBuilder::addGoal drops weight-0 literals')
        h = _strip(_rd(repo, 'potassco/match_basic_types.h'))
        if not re.search(r'str\.require\(str\.match\(x\)\s*&&\s*x\s*>=\s*atomMin\s*&&\s*x\s*<=\s*max,\s*err\)', h):
            problems.append('anchor not found: matchAtom range check')
        if not re.search(r'str\.require\(str\.match\(x\)\s*&&\s*x\s*!=\s*0\s*&&\s*x\s*>=\s*-max\s*&&\s*x\s*<=\s*max,\s*err\)', h):
            problems.append('anchor not found: matchLit range check')
        if not re.search(r'str\.require\(str\.match\(x\)\s*&&\s*x\s*>=\s*0\s*&&\s*static_cast<uint64_t>\(x\)\s*<=\s*max,\s*err\)', h):
            problems.append('anchor not found: matchPos range check')
        if not re.search(r'str\.require\(str\.match\(x\)\s*&&\s*x\s*>=\s*min\s*&&\s*x\s*<=\s*max,\s*err\)', h):
            problems.append('anchor not found: matchInt range check')
        m = re.search(r'varMax_\(static_cast<unsigned>\(INT_MAX\)\)', _strip(_rd(repo, 'src/match_basic_types.cpp')))
        if not m:
            problems.append('anchor not found: ProgramReader varMax_ = INT_MAX')
    except OSError as e:
        problems.append(str(e))
    return '\n'.join(L) + '\n', C, problems
