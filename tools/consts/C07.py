"""Translator for C07/C05: limits and constants of the smodels reader / writer (src/smodels.cpp, src/match_basic_types.cpp).

Every value the Coq model of SmodelsInput depends on is read from the sources: the upper limits handed to matchPos in
each position, the range checks (bound, neg <= len), the external-value encoding, the keywords.  A position whose call
has no explicit limit gets the default of matchPos (static_cast<unsigned>(-1)); the model then applies the same
conversion to a signed 32-bit value the C++ applies, so the model stays faithful and the theorems stop being provable.
"""
import re, os


def rd(repo, rel):
    return open(os.path.join(repo, rel), encoding='latin-1').read()


def strip(s):
    s = re.sub(r'/\*.*?\*/', ' ', s, flags=re.S)
    return re.sub(r'//[^\n]*', ' ', s)


UINT_MAX = 2 ** 32 - 1
INT_MAX = 2 ** 31 - 1


def limit(expr, env):
    """Value of the first argument of matchPos(...) (None/'' = default UINT_MAX)."""
    e = (expr or '').strip()
    if not e or e.startswith('"'):
        return UINT_MAX
    m = re.match(r'static_cast<\s*(?:unsigned|uint32_t|unsigned int)\s*>\s*\(\s*(.*?)\s*\)$', e)
    if m:
        e = m.group(1)
    m = re.match(r'\(\s*(?:unsigned|uint32_t)\s*\)\s*(.*)$', e)
    if m:
        e = m.group(1)
    if e in env:
        return env[e]
    if re.match(r'^\d+[uU]?$', e):
        return int(e.rstrip('uU'))
    raise ValueError('cannot evaluate limit %r' % expr)


def first_arg(call):
    """call = text between the parentheses of matchPos( ... ); returns the first argument if it is not a string."""
    a = call.split(',')[0].strip()
    return '' if a.startswith('"') else a


def generate(repo):
    problems = []
    C = {}
    L = ['Require Import ZArith List. Import ListNotations.', 'Local Open Scope Z_scope.']

    def const(name, val, src):
        C[name] = val
        L.append('Definition %s : Z := %d. (* %s *)' % (name, val, src))

    def flag(name, val, src):
        C[name] = bool(val)
        L.append('Definition %s : bool := %s. (* %s *)' % (name, 'true' if val else 'false', src))

    def bytes_(name, s, src):
        C[name] = s
        L.append('Definition %s : list Z := [%s]. (* %s *)' % (name, '; '.join(str(b) for b in s.encode('latin-1')), src))
    try:
        sm = strip(rd(repo, 'src/smodels.cpp'))
        mb = strip(rd(repo, 'src/match_basic_types.cpp'))
        mh = strip(rd(repo, 'potassco/match_basic_types.h'))
        bt = strip(rd(repo, 'potassco/basic_types.h'))
    except OSError as e:
        return None, {}, [str(e)]
    env = {'INT_MAX': INT_MAX, 'UINT_MAX': UINT_MAX}
    m = re.search(r'const\s+Atom_t\s+atomMax\s*=\s*static_cast<Atom_t>\(\(\(1u\)<<31\)-1\)', bt)
    if m:
        env['atomMax'] = INT_MAX
    else:
        problems.append('anchor not found: atomMax = ((1u)<<31)-1')
    # default limit of the reader's matchPos / default maxVar
    m = re.search(r'unsigned\s+matchPos\(unsigned\s+max\s*=\s*static_cast<unsigned>\(-1\)', mh)
    if m:
        const('sm_umax', UINT_MAX, 'ProgramReader::matchPos default limit')
    else:
        problems.append('anchor not found: ProgramReader::matchPos default limit')
    m = re.search(r'ProgramReader::ProgramReader\(\)\s*:[^{]*varMax_\(static_cast<unsigned>\((\w+)\)\)', mb)
    if m and m.group(1) in env:
        const('sm_varMax', env[m.group(1)], 'ProgramReader::varMax_ default')
    else:
        problems.append('anchor not found: ProgramReader varMax_ default')
    m = re.search(r'matchPos\(BufferedStream&\s*str,\s*unsigned\s+max,[^{]*\{\s*int64_t\s+x;\s*str\.require\(str\.match\(x\)\s*&&\s*x\s*>=\s*0\s*&&\s*static_cast<uint64_t>\(x\)\s*<=\s*max', mh)
    if not m:
        problems.append('anchor not found: matchPos range test')
    m = re.search(r'matchAtom\(BufferedStream&[^{]*\{\s*int64_t\s+x;\s*int64_t\s+max\s*=\s*static_cast<int64_t>\(aMax\);\s*str\.require\(str\.match\(x\)\s*&&\s*x\s*>=\s*atomMin\s*&&\s*x\s*<=\s*max', mh)
    if not m:
        problems.append('anchor not found: matchAtom range test')

    def body_of(name):
        m = re.search(r'SmodelsInput::' + name + r'\s*\([^)]*\)\s*\{', sm)
        if not m:
            problems.append('anchor not found: SmodelsInput::' + name)
            return ''
        i, depth = m.end(), 1
        while i < len(sm) and depth:
            depth += {'{': 1, '}': -1}.get(sm[i], 0)
            i += 1
        return sm[m.end():i]
    msum, mbody, rrules, rsyms, rcomp, rextra = (body_of(n) for n in ('matchSum', 'matchBody', 'readRules', 'readSymbols', 'readCompute', 'readExtra'))

    def lim(name, text, pat, src):
        m = re.search(pat, text)
        if not m:
            problems.append('anchor not found: ' + src)
            return
        try:
            const(name, limit(first_arg(m.group(1)), env), src)
        except ValueError as e:
            problems.append(str(e))
    # matchSum: three counts, the bound check, the weights
    if len(re.findall(r'uint32_t\s+(?:bnd|len|neg)\s*=\s*matchPos\(\s*\)\s*;', msum)) != 3:
        problems.append('anchor not found: matchSum reads bnd/len/neg with matchPos()')
    if not re.search(r'if\s*\(!weights\)\s*\{\s*std::swap\(len,\s*bnd\);\s*std::swap\(bnd,\s*neg\);\s*\}', msum):
        problems.append('anchor not found: matchSum swap')
    m = re.search(r'require\(\s*bnd\s*<=\s*([^,]+),', msum)
    try:
        const('sm_bound_max', limit(m.group(1), env) if m else UINT_MAX, 'matchSum: require(bnd <= ...) (absent = no check)')
    except ValueError as e:
        problems.append(str(e))
    flag('sm_neg_check_sum', re.search(r'require\(\s*neg\s*<=\s*len\s*,', msum), 'matchSum: require(neg <= len)')
    flag('sm_neg_check_body', re.search(r'require\(\s*neg\s*<=\s*len\s*,', mbody), 'matchBody: require(neg <= len)')
    if len(re.findall(r'uint32_t\s+(?:len|neg)\s*=\s*matchPos\(\s*\)\s*;', mbody)) != 2:
        problems.append('anchor not found: matchBody reads len/neg with matchPos()')
    # the atom limit: the member matchAtom hands the reader's varMax_ (setMaxVar) to the free function; matchBody / matchSum / readRules read
    # every rule atom (and the head count) with that member - the model's m_atom_v vm (coq/C07/Model.v, Section MaxVar)
    if not re.search(r'Atom_t\s+matchAtom\(const\s+char\*\s*err\s*=\s*"[^"]*"\)\s*\{\s*return\s+Potassco::matchAtom\(\*stream\(\),\s*varMax_,\s*err\);', mh):
        problems.append('anchor not found: ProgramReader::matchAtom(err) passes varMax_')
    if not re.search(r'void\s+setMaxVar\(unsigned\s+v\)\s*\{\s*varMax_\s*=\s*v;\s*\}', mh):
        problems.append('anchor not found: ProgramReader::setMaxVar')
    for nm, text, cnt in (('matchBody', mbody, 1), ('matchSum', msum, 1), ('readRules', rrules, 6)):
        calls = re.findall(r'(?<![\w:.>])matchAtom\(\s*(?:"[^"]*")?\s*\)', text)
        if len(calls) != cnt or len(re.findall(r'matchAtom\s*\(', text)) != cnt:
            problems.append('anchor not found: %s reads its atoms with the member matchAtom() (%d calls expected)' % (nm, cnt))
    if not re.search(r'Lit_t\s+p\s*=\s*lit\(matchAtom\(\)\);', mbody) or not re.search(r'Lit_t\s+p\s*=\s*lit\(matchAtom\(\)\);', msum):
        problems.append('anchor not found: matchBody / matchSum literal = lit(matchAtom())')
    lim('sm_weight_max', msum, r'x->weight\s*=\s*\(Weight_t\)\s*matchPos\((.*?)\)\s*;', 'matchSum: weight limit')
    # readRules
    lim('sm_rt_max', rrules, r'\(rt\s*=\s*matchPos\((.*?)\)\)\s*!=\s*0', 'readRules: rule type limit')
    lim('sm_hsize_dummy', rrules, r'unsigned\s+i\s*=\s*matchAtom\((.*?)\)\s*;\s*i--', 'readRules: head size through matchAtom')
    m = re.search(r'static_cast<Value_t>\(\(matchPos\((\d+),\s*"[^"]*"\)\s*\^\s*(\d+)\)\s*-\s*(\d+)\)', rrules)
    if m:
        const('sm_extval_max', int(m.group(1)), 'readRules: 91 value limit')
        const('sm_extval_xor', int(m.group(2)), 'readRules: 91 value encoding')
        const('sm_extval_sub', int(m.group(3)), 'readRules: 91 value encoding')
    else:
        problems.append('anchor not found: ClaspAssignExt value decoding')
    if not re.search(r'case ClaspIncrement:\s*require\(opts_\.claspExt\s*&&\s*matchPos\(\)\s*==\s*0', rrules):
        problems.append('anchor not found: ClaspIncrement gating')
    if not re.search(r'case ClaspAssignExt:\s*case ClaspReleaseExt:\s*require\(opts_\.claspExt,', rrules):
        problems.append('anchor not found: ClaspAssignExt/ReleaseExt gating')
    lim('sm_sym_max', rsyms, r'\(atom\s*=\s*\(Lit_t\)\s*matchPos\((.*?)\)\)\s*!=\s*0', 'readSymbols: atom limit')
    lim('sm_comp_max', rcomp, r'\(x\s*=\s*\(Lit_t\)\s*matchPos\((.*?)\)\)\s*!=\s*0', 'readCompute: atom limit')
    lim('sm_ext_max', rextra, r'\(atom\s*=\s*matchPos\((.*?)\)\)\s*!=\s*0', 'readExtra: atom limit')
    lim('sm_models_max', rextra, r'\}\s*matchPos\((.*?)\)\s*;\s*return true', 'readExtra: number of models limit')
    m = re.search(r'readCompute\("(B\+)",\s*true\)\s*&&\s*readCompute\("(B-)",\s*false\)', sm)
    if m:
        bytes_('sm_kw_bplus', m.group(1), 'doParse')
        bytes_('sm_kw_bminus', m.group(2), 'doParse')
    else:
        problems.append('anchor not found: readCompute keywords')
    m = re.search(r'if\s*\(match\("(E)"\)\)', rextra)
    if m:
        bytes_('sm_kw_ext', m.group(1), 'readExtra')
    else:
        problems.append('anchor not found: readExtra keyword')
    if not re.search(r"BufferedStream::isDigit\(n\)\s*&&\s*\(\(inc\s*=\s*\(n\s*==\s*'9'\)\)\s*==\s*false\s*\|\|\s*opts_\.claspExt\)", sm):
        problems.append('anchor not found: doAttach format probe')
    # ---- writer (C05) ----
    m = re.search(r"startRule\(ClaspAssignExt\)\.add\(a\)\.add\(\(unsigned\(t\)\s*\^\s*(\d+)\)\s*-\s*(\d+)\)", sm)
    if m:
        const('smw_extval_xor', int(m.group(1)), 'SmodelsOutput::external value encoding')
        const('smw_extval_sub', int(m.group(2)), 'SmodelsOutput::external value encoding')
    else:
        problems.append('anchor not found: SmodelsOutput::external encoding')
    m = re.search(r'os_\s*<<\s*"(B\+)\\n"', sm)
    m2 = re.search(r'os_\s*<<\s*"0\\n(B-)\\n"', sm)
    m3 = re.search(r'SmodelsOutput::endStep\(\)\s*\{[^}]*\}\s*os_\s*<<\s*"(\d+)\\n"', sm)
    if m and m2 and m3:
        bytes_('smw_kw_bplus', m.group(1), 'SmodelsOutput::assume')
        bytes_('smw_kw_bminus', m2.group(1), 'SmodelsOutput::assume')
        const('smw_models', int(m3.group(1)), 'SmodelsOutput::endStep number of models')
    else:
        problems.append('anchor not found: SmodelsOutput::assume/endStep literals')
    return '\n'.join(L) + '\n', C, problems


if __name__ == '__main__':
    import sys
    t, c, p = generate(sys.argv[1] if len(sys.argv) > 1 else '/repo')
    print(t)
    print(p)
