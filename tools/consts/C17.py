"""C17 translator: the layout constants of Potassco::StringBuilder (potassco/string_convert.h,
src/string_convert.cpp) -> coq/Gen/Consts_C17.v.  Every anchor that is not found is a problem."""
import re, os


def _strip(s):
    s = re.sub(r'/\*.*?\*/', ' ', s, flags=re.S)
    return re.sub(r'//[^\n]*', ' ', s)


def generate(repo):
    problems, C, L = [], {}, []
    L.append('Require Import ZArith.')
    L.append('Local Open Scope Z_scope.')

    def const(name, val, src):
        C[name] = val
        L.append('Definition %s : Z := %d. (* %s *)' % (name, val, src))

    try:
        h = _strip(open(os.path.join(repo, 'potassco/string_convert.h'), encoding='latin-1').read())
        c = _strip(open(os.path.join(repo, 'src/string_convert.cpp'), encoding='latin-1').read())
    except OSError as e:
        return None, {}, [str(e)]
    m = re.search(r'class\s+StringBuilder\s*\{(.*?)\n\};', h, re.S)
    if not m:
        return None, {}, ['anchor not found: class StringBuilder']
    cls = m.group(1)
    # enum Type { Sbo = 0u, Str = 64u, Buf = 128u };
    m = re.search(r'enum\s+Type\s*\{\s*Sbo\s*=\s*(\d+)u?\s*,\s*Str\s*=\s*(\d+)u?\s*,\s*Buf\s*=\s*(\d+)u?\s*\}', cls)
    if m:
        const('T_Sbo', int(m.group(1)), 'enum Type')
        const('T_Str', int(m.group(2)), 'enum Type')
        const('T_Buf', int(m.group(3)), 'enum Type')
    else:
        problems.append('anchor not found: enum Type { Sbo, Str, Buf }')
    # enum { Own = 1u, SboCap = 63u };
    m = re.search(r'enum\s*\{\s*Own\s*=\s*(\d+)u?\s*,\s*SboCap\s*=\s*(\d+)u?\s*\}', cls)
    if m:
        const('T_Own', int(m.group(1)), 'enum { Own, SboCap }')
        const('SboCap', int(m.group(2)), 'enum { Own, SboCap }')
    else:
        problems.append('anchor not found: enum { Own, SboCap }')
    # union { std::string* str_; Buffer buf_; char sbo_[64]; };
    m = re.search(r'union\s*\{\s*std::string\s*\*\s*str_\s*;\s*Buffer\s+buf_\s*;\s*char\s+sbo_\s*\[\s*(\d+)\s*\]\s*;\s*\}', cls)
    if m:
        const('SboBytes', int(m.group(1)), 'char sbo_[N] in the union')
    else:
        problems.append('anchor not found: union { str_; buf_; sbo_[N] }')
    # struct Buffer { ... char* head; std::size_t used; std::size_t size; };  -> three 8-byte fields
    m = re.search(r'struct\s+Buffer\s*\{(.*?)\};', cls, re.S)
    if m and re.search(r'char\s*\*\s*head\s*;\s*std::size_t\s+used\s*;\s*std::size_t\s+size\s*;', m.group(1)):
        const('BufBytes', 24, 'sizeof(Buffer): head pointer, size_t used, size_t size (LP64)')
        const('PtrBytes', 8, 'sizeof(std::string pointer) (LP64)')
    else:
        problems.append('anchor not found: struct Buffer { head; used; size }')
    # tag byte index: setTag writes sbo_[K], tag() reads sbo_[K]
    ms = re.search(r'void\s+setTag\s*\(\s*uint8_t\s+t\s*\)\s*\{\s*reinterpret_cast<\s*uint8_t\s*&\s*>\s*\(\s*sbo_\s*\[\s*(\d+)\s*\]\s*\)\s*=\s*t\s*;', cls)
    mt = re.search(r'uint8_t\s+tag\s*\(\s*\)\s*const\s*\{\s*return\s+static_cast<\s*uint8_t\s*>\s*\(\s*sbo_\s*\[\s*(\d+)\s*\]\s*\)\s*;', cls)
    if ms and mt and ms.group(1) == mt.group(1):
        const('TagIdx', int(ms.group(1)), 'setTag/tag use sbo_[K]')
    else:
        problems.append('anchor not found: setTag/tag on the same sbo_[K]')
    m = re.search(r'Type\s+type\s*\(\s*\)\s*const\s*\{\s*return\s+static_cast<\s*Type\s*>\s*\(\s*tag\s*\(\s*\)\s*&\s*uint8_t\s*\(\s*Str\s*\|\s*Buf\s*\)\s*\)\s*;', cls)
    if not m:
        problems.append('anchor not found: type() = tag() & (Str|Buf)')
    # constructor for capacity 0: buf = sbo_ + (SboCap - K); n = 1;
    m = re.search(r'if\s*\(\s*!n\s*\)\s*\{\s*buf\s*=\s*sbo_\s*\+\s*\(\s*SboCap\s*-\s*(\d+)\s*\)\s*;\s*n\s*=\s*1\s*;\s*\}', c)
    if m and 'SboCap' in C:
        const('ZeroCapOff', C['SboCap'] - int(m.group(1)), 'ctor: buf = sbo_ + (SboCap - K) when n == 0')
    else:
        problems.append('anchor not found: ctor zero-capacity redirect into sbo_')
    # appendFormat: char small[64];
    m = re.search(r'StringBuilder::appendFormat\s*\(.*?\)\s*\{(.*?)\n\}', c, re.S)
    ms = m and re.search(r'char\s+small\s*\[\s*(\d+)\s*\]\s*;', m.group(1))
    if ms:
        const('SmallSize', int(ms.group(1)), 'appendFormat: char small[N]')
    else:
        problems.append('anchor not found: appendFormat small[N]')
    # append_: char temp[22];
    m = re.search(r'StringBuilder::append_\s*\(.*?\)\s*\{(.*?)\n\}', c, re.S)
    ms = m and re.search(r'char\s+temp\s*\[\s*(\d+)\s*\]\s*;', m.group(1))
    if ms:
        const('NumTemp', int(ms.group(1)), 'append_: char temp[N]')
    else:
        problems.append('anchor not found: append_ temp[N]')
    return '\n'.join(L) + '\n', C, problems


if __name__ == '__main__':
    import sys
    t, d, p = generate(sys.argv[1] if len(sys.argv) > 1 else '/repo')
    print(t)
    print(d, p)
