"""C18 translator: the shape of the signal code of src/application.cpp -> coq/Gen/Consts_C18.v.

Extracted (anchored; a missing anchor is a problem): the value fetch_and_inc must return for a delivery (0), the value
fetch_and_dec must return for the take of an outermost release (1), whether the take of pending_ is one atomic step
(fetch_and_clear) or a read followed by a clear, the implementation of the three helpers on the non-Windows branch, and the
order of the scheduling points (yield codes) in processSignal / unblockSignals; for the OS-level layer (coq/C18/Disp.v): the shape
of sigHandler's ScopedSig (signal(sig, SIG_IGN) first, unconditional signal(sig, sigHandler) in the destructor) and of main()'s
installation loop (an ignored signal stays ignored, nothing restored at the end, blocked_ = pending_ = 0 at the start), and
the registration of the running object (main() starts with initInstance(*this); ~Application -> resetInstance clears instance_s
only if it points to the object being destroyed; the constructor does not register; no other assignment of instance_s), and
the alarm (POSIX setAlarm installs sigHandler for SIGALRM unconditionally when sec != 0, then alarm(sec); killAlarm only cancels;
main() arms the time limit after the installation loop; SIGALRM used nowhere else), and the statement order of shutdown(bool) (block,
killAlarm, THEN the error report of shutdown(true), shutdown()) with main()'s two calls of it.  coq/Properties_C18.v proves that these are the
values the model (coq/C18/Model.v) is written for.
"""
import os
import re


def body_of(txt, header_re):
    m = re.search(header_re, txt)
    if not m:
        return None
    i = txt.find('{', m.end() - 1)
    depth, j = 0, i
    while 0 <= j < len(txt):
        if txt[j] == '{':
            depth += 1
        elif txt[j] == '}':
            depth -= 1
            if depth == 0:
                return txt[i + 1:j]
        j += 1
    return None


def mn_re(code):
    """main()'s two ways into shutdown(bool)"""
    return re.search(r'try\s*\{\s*setup\(\s*\)\s*;\s*run\(\s*\)\s*;\s*shutdown\(\s*false\s*\)\s*;\s*\}\s*'
                     r'catch\s*\(\s*\.\.\.\s*\)\s*\{\s*shutdown\(\s*true\s*\)\s*;\s*\}', code) is not None


def generate(repo):
    problems = []
    txt = open(os.path.join(repo, 'src', 'application.cpp'), encoding='latin-1').read()
    code = re.sub(r'//[^\n]*', '', txt)
    d = {}
    ps = body_of(code, r'void\s+Application::processSignal\s*\(\s*int\s+sig\s*\)\s*\{')
    ub = body_of(code, r'void\s+Application::unblockSignals\s*\(\s*bool\s+deliverPending\s*\)\s*\{')
    bs = body_of(code, r'int\s+Application::blockSignals\s*\(\s*\)\s*\{')
    sd = body_of(code, r'void\s+Application::shutdown\s*\(\s*bool\s+hasError\s*\)\s*\{')
    if ps is None:
        problems.append('anchor missing: Application::processSignal(int sig)')
        ps = ''
    if ub is None:
        problems.append('anchor missing: Application::unblockSignals(bool deliverPending)')
        ub = ''
    m = re.search(r'if\s*\(\s*fetch_and_inc\(blocked_\)\s*==\s*(\d+)\s*\)', ps)
    if m:
        d['deliver_at'] = int(m.group(1))
    else:
        problems.append('anchor missing: processSignal "if (fetch_and_inc(blocked_) == N)"')
    m = re.search(r'if\s*\(\s*fetch_and_dec\(blocked_\)\s*==\s*(\d+)\s*\)', ub)
    if m:
        d['release_at'] = int(m.group(1))
    else:
        problems.append('anchor missing: unblockSignals "if (fetch_and_dec(blocked_) == N)"')
    if not re.search(r'if\s*\(\s*!\s*onSignal\(sig\)\s*\)\s*\{\s*return\s*;\s*\}', ps):
        problems.append('anchor missing: processSignal "if (!onSignal(sig)) { return; }"')
    if not re.search(r'else\s+if\s*\(\s*(?:POTASSCO_VERIF_YIELD_C\(4\)\s*)?pending_\s*==\s*0\s*\)\s*\{[^}]*pending_\s*=\s*sig\s*;\s*\}', ps):
        problems.append('anchor missing: processSignal "else if (pending_ == 0) { ... pending_ = sig; }"')
    if not re.search(r'\}\s*(?:POTASSCO_VERIF_YIELD\(6\)\s*)?fetch_and_dec\(blocked_\)\s*;\s*$', ps.strip() + '\n', re.S):
        problems.append('anchor missing: processSignal ends with fetch_and_dec(blocked_);')
    atomic = re.search(r'int\s+pend\s*=\s*static_cast<int>\(\s*fetch_and_clear\(pending_\)\s*\)\s*;', ub) is not None
    split = re.search(r'int\s+pend\s*=\s*pending_\s*;', ub) is not None and re.search(r'pending_\s*=\s*0\s*;', ub) is not None
    if atomic and not re.search(r'pending_\s*=[^=]', ub):
        d['take_atomic'] = True
    elif split:
        d['take_atomic'] = False
    else:
        problems.append('anchor missing: unblockSignals takes pending_ neither by fetch_and_clear nor by read-then-clear')
    if not re.search(r'if\s*\(\s*pend\s*&&\s*deliverPending\s*\)\s*\{\s*processSignal\(pend\)\s*;\s*\}', ub):
        problems.append('anchor missing: unblockSignals "if (pend && deliverPending) { processSignal(pend); }"')
    if bs is None or not re.search(r'^\s*return\s+fetch_and_inc\(blocked_\)\s*;\s*$', bs):
        problems.append('anchor missing: blockSignals "return fetch_and_inc(blocked_);"')
    if sd is None or not re.search(r'^\s*fetch_and_inc\(blocked_\)\s*;', sd):
        problems.append('anchor missing: shutdown(bool) starts with fetch_and_inc(blocked_);')
    # the order inside shutdown(bool): the block is taken (and the alarm cancelled) BEFORE the error report of shutdown(true) runs, and
    # nothing in it releases the block (coq/C18/Disp.v: decode_fops 10 = [FCore Block; FReport]; coq/C18/ProofsShut.v)
    d['shutdown_blocks_before_report'] = sd is not None and re.fullmatch(
        r'\s*fetch_and_inc\(blocked_\)\s*;\s*killAlarm\(\s*\)\s*;\s*if\s*\(\s*hasError\s*\)\s*\{?\s*onUnhandledException\(\s*\)\s*;\s*\}?\s*'
        r'shutdown\(\s*\)\s*;\s*', sd) is not None
    if not d['shutdown_blocks_before_report']:
        problems.append('anchor missing: shutdown(bool) "fetch_and_inc(blocked_); killAlarm(); if (hasError) { onUnhandledException(); } shutdown();" '
                        '(the error report runs after delivery has been blocked)')
    d['main_error_path_is_shutdown_true'] = mn_re(code)
    if not d['main_error_path_is_shutdown_true']:
        problems.append('anchor missing: main() "try { setup(); run(); shutdown(false); } catch (...) { shutdown(true); }"')
    helpers = {
        'fetch_and_inc': r'static\s+long\s+fetch_and_inc\(volatile\s+long&\s*x\)\s*\{\s*return\s+__sync_fetch_and_add\(&x,\s*1\)\s*;\s*\}',
        'fetch_and_dec': r'static\s+long\s+fetch_and_dec\(volatile\s+long&\s*x\)\s*\{\s*return\s+__sync_fetch_and_sub\(&x,\s*1\)\s*;\s*\}',
    }
    if d.get('take_atomic'):
        helpers['fetch_and_clear'] = r'static\s+long\s+fetch_and_clear\(volatile\s+long&\s*x\)\s*\{\s*return\s+__sync_fetch_and_and\(&x,\s*0\)\s*;\s*\}'
    for name, rx in helpers.items():
        if not re.search(rx, code):
            problems.append('anchor missing: %s implemented by the expected __sync builtin' % name)
    # ---- the OS-level entry point (coq/C18/Disp.v): sigHandler's ScopedSig and what main() does with dispositions
    sh = body_of(code, r'void\s+Application::sigHandler\s*\(\s*int\s+sig\s*\)\s*\{')
    mn = body_of(code, r'int\s+Application::main\s*\(\s*int\s+argc\s*,\s*char\s*\*\*\s*argv\s*\)\s*\{')
    if sh is None:
        problems.append('anchor missing: Application::sigHandler(int sig)')
        sh = ''
    if mn is None:
        problems.append('anchor missing: Application::main(int argc, char** argv)')
        mn = ''
    d['handler_ignores_first'] = re.search(
        r'ScopedSig\(\s*int\s+s\s*\)\s*:\s*sig\(s\)\s*\{\s*signal\(\s*sig\s*,\s*SIG_IGN\s*\)\s*;\s*'
        r'Application::getInstance\(\)->processSignal\(sig\)\s*;\s*\}', sh) is not None
    if not d['handler_ignores_first']:
        problems.append('anchor missing: sigHandler "ScopedSig(int s) : sig(s) { signal(sig, SIG_IGN); getInstance()->processSignal(sig); }"')
    d['handler_reinstalls_always'] = re.search(r'~ScopedSig\(\s*\)\s*\{\s*signal\(\s*sig\s*,\s*sigHandler\s*\)\s*;\s*\}', sh) is not None
    if not d['handler_reinstalls_always']:
        problems.append('anchor missing: sigHandler "~ScopedSig() { signal(sig, sigHandler); }" (unconditional re-installation)')
    if not re.search(r'\}\s*scoped\(sig\)\s*;', sh) or len(re.findall(r'\bsignal\s*\(', sh)) != 2:
        problems.append('anchor missing: sigHandler consists of one ScopedSig object with exactly two signal() calls')
    d['main_keeps_ignored'] = re.search(
        r'for\s*\(\s*const\s+int\s*\*\s*sig\s*=\s*getSignals\(\)\s*;\s*sig\s*&&\s*\*sig\s*;\s*\+\+sig\s*\)\s*\{\s*'
        r'if\s*\(\s*signal\(\s*\*sig\s*,\s*&Application::sigHandler\s*\)\s*==\s*SIG_IGN\s*\)\s*\{\s*signal\(\s*\*sig\s*,\s*SIG_IGN\s*\)\s*;\s*\}\s*\}', mn) is not None
    if not d['main_keeps_ignored']:
        problems.append('anchor missing: main() "for (sig in getSignals()) { if (signal(*sig, &sigHandler) == SIG_IGN) { signal(*sig, SIG_IGN); } }"')
    d['main_restores_dispositions'] = len(re.findall(r'\bsignal\s*\(', mn)) != 2
    if d['main_restores_dispositions']:
        problems.append('main() calls signal() elsewhere than in the installation loop (the model restores nothing at the end of a run)')
    d['main_resets_state'] = re.search(r'blocked_\s*=\s*pending_\s*=\s*0\s*;', mn) is not None
    if not d['main_resets_state']:
        problems.append('anchor missing: main() "blocked_ = pending_ = 0;"')
    # ---- which object instance_s points to (coq/C18/Disp.v, rst): main() registers, ~Application resets only its own registration
    ri = body_of(code, r'void\s+Application::resetInstance\s*\(\s*Application\s*&\s*\w*\s*\)\s*\{')
    ii = body_of(code, r'void\s+Application::initInstance\s*\(\s*Application\s*&\s*\w*\s*\)\s*\{')
    gi = body_of(code, r'Application\s*\*\s*Application::getInstance\s*\(\s*\)\s*\{')
    d['reset_only_if_registered'] = ri is not None and re.fullmatch(
        r'\s*if\s*\(\s*instance_s\s*==\s*&\s*app\s*\)\s*\{?\s*instance_s\s*=\s*(?:0|NULL|nullptr)\s*;\s*\}?\s*', ri) is not None
    if not d['reset_only_if_registered']:
        problems.append('anchor missing: resetInstance(Application& app) "if (instance_s == &app) { instance_s = 0; }"')
    d['dtor_resets'] = re.search(r'Application::~Application\s*\(\s*\)\s*\{\s*resetInstance\(\s*\*this\s*\)\s*;\s*\}', code) is not None
    if not d['dtor_resets']:
        problems.append('anchor missing: "Application::~Application() { resetInstance(*this); }"')
    d['main_registers'] = (re.match(r'\s*initInstance\(\s*\*this\s*\)\s*;', mn) is not None and ii is not None and
                           re.fullmatch(r'\s*instance_s\s*=\s*&\s*app\s*;\s*', ii) is not None)
    if not d['main_registers']:
        problems.append('anchor missing: main() starts with initInstance(*this); and initInstance sets instance_s = &app')
    d['ctor_registers'] = re.search(r'Application::Application\s*\(\s*\)\s*:[^{;]*\{\s*\}', code) is None
    if d['ctor_registers']:
        problems.append('anchor missing: Application::Application() has an empty body (the constructor does not register the object)')
    if len(re.findall(r'\binstance_s\s*=[^=]', code)) != 3:
        problems.append('instance_s is assigned elsewhere than in its definition, initInstance and resetInstance')
    if gi is None or not re.fullmatch(r'\s*return\s+instance_s\s*;\s*', gi):
        problems.append('anchor missing: getInstance() "return instance_s;"')
    # ---- setAlarm / killAlarm (POSIX branch) and main()'s time limit (coq/C18/Disp.v: FSetAlarm, os_main tl)
    m_posix = re.search(r'#if\s*!defined\(_WIN32\)\s*int\s+Application::setAlarm\s*\(\s*unsigned\s+sec\s*\)\s*\{(.*?)\}\s*#else', code, re.S)
    sa = m_posix.group(1) if m_posix else None
    d['setalarm_installs_unconditionally'] = sa is not None and re.fullmatch(
        r'\s*if\s*\(\s*sec\s*\)\s*\{\s*signal\(\s*SIGALRM\s*,\s*&Application::sigHandler\s*\)\s*;\s*\}\s*alarm\(\s*sec\s*\)\s*;\s*return\s+1\s*;\s*', sa) is not None
    if not d['setalarm_installs_unconditionally']:
        problems.append('anchor missing: POSIX setAlarm "if (sec) { signal(SIGALRM, &Application::sigHandler); } alarm(sec); return 1;"')
    ka = body_of(code, r'void\s+Application::killAlarm\s*\(\s*\)\s*\{')
    d['killalarm_only_cancels'] = ka is not None and re.fullmatch(r'\s*if\s*\(\s*timeout_\s*>\s*0\s*\)\s*\{\s*setAlarm\(\s*0\s*\)\s*;\s*\}\s*', ka) is not None
    if not d['killalarm_only_cancels']:
        problems.append('anchor missing: killAlarm "if (timeout_ > 0) { setAlarm(0); }"')
    d['main_arms_time_limit'] = re.search(
        r'\}\s*\}\s*if\s*\(\s*timeout_\s*\)\s*\{\s*if\s*\(\s*setAlarm\(\s*timeout_\s*\)\s*==\s*0\s*\)\s*\{[^}]*\}\s*\}', mn) is not None
    if not d['main_arms_time_limit']:
        problems.append('anchor missing: main() "if (timeout_) { if (setAlarm(timeout_) == 0) { ... } }" after the installation loop')
    if len(re.findall(r'\bSIGALRM\b', re.sub(r'#if\s*!defined\(SIGALRM\).*?#endif', '', code, flags=re.S))) != 2:
        problems.append('SIGALRM is used elsewhere than in the POSIX setAlarm (handler installation) and the Windows alarm thread')
    ys_ps = [int(x) for x in re.findall(r'POTASSCO_VERIF_YIELD(?:_C)?\((\d+)\)', ps)]
    ys_ub = [int(x) for x in re.findall(r'POTASSCO_VERIF_YIELD(?:_C)?\((\d+)\)', ub)]
    d['yields_process'] = ys_ps
    d['yields_unblock'] = ys_ub
    if ys_ps != [1, 2, 4, 5, 6]:
        problems.append('yield points of processSignal are %r, expected [1, 2, 4, 5, 6]' % ys_ps)

    def zl(l):
        return '[' + '; '.join(str(x) for x in l) + ']'

    def cb(b):
        return 'true' if b else 'false'
    coq = ('Require Import ZArith List. Import ListNotations.\nLocal Open Scope Z_scope.\n'
           'Definition deliver_at : Z := %d.\nDefinition release_at : Z := %d.\nDefinition take_atomic : bool := %s.\n'
           'Definition yields_process : list Z := %s.\nDefinition yields_unblock : list Z := %s.\n'
           'Definition handler_ignores_first : bool := %s.\nDefinition handler_reinstalls_always : bool := %s.\n'
           'Definition main_keeps_ignored : bool := %s.\nDefinition main_restores_dispositions : bool := %s.\n'
           'Definition main_resets_state : bool := %s.\n'
           'Definition reset_only_if_registered : bool := %s.\nDefinition dtor_resets : bool := %s.\n'
           'Definition main_registers : bool := %s.\nDefinition ctor_registers : bool := %s.\n'
           'Definition setalarm_installs_unconditionally : bool := %s.\nDefinition killalarm_only_cancels : bool := %s.\n'
           'Definition main_arms_time_limit : bool := %s.\n'
           'Definition shutdown_blocks_before_report : bool := %s.\nDefinition main_error_path_is_shutdown_true : bool := %s.\n' % (
               d.get('deliver_at', -1), d.get('release_at', -1), 'true' if d.get('take_atomic') else 'false',
               zl(ys_ps), zl(ys_ub), cb(d.get('handler_ignores_first')), cb(d.get('handler_reinstalls_always')),
               cb(d.get('main_keeps_ignored')), cb(d.get('main_restores_dispositions')), cb(d.get('main_resets_state')),
               cb(d.get('reset_only_if_registered')), cb(d.get('dtor_resets')), cb(d.get('main_registers')), cb(d.get('ctor_registers')),
               cb(d.get('setalarm_installs_unconditionally')), cb(d.get('killalarm_only_cancels')), cb(d.get('main_arms_time_limit')),
               cb(d.get('shutdown_blocks_before_report')), cb(d.get('main_error_path_is_shutdown_true'))))
    return coq, d, problems
