"""Translator for C02/C08: constants of SmodelsConvert::SmData read from src/convert.cpp (and the
heuristic modifier names from potassco/basic_types.h).  Every anchor that is not found is a problem."""
import re, os


def _rd(repo, rel):
    return open(os.path.join(repo, rel), encoding='latin-1').read()


def _strip(s):
    s = re.sub(r'/\*.*?\*/', ' ', s, flags=re.S)
    return re.sub(r'//[^\n]*', ' ', s)


def _coq_str(s):
    return '[' + '; '.join(str(b) for b in s.encode('latin-1')) + ']'


def generate(repo):
    problems, C, L = [], {}, []
    L.append('Require Import ZArith List. Import ListNotations.')
    L.append('Local Open Scope Z_scope.')

    def const(name, val, src):
        C[name] = val
        L.append('Definition %s : Z := %d. (* %s *)' % (name, val, src))
    try:
        c = _strip(_rd(repo, 'src/convert.cpp'))
        m = re.search(r'SmData\s*\(\s*\)\s*:\s*next_\s*\(\s*(\d+)\s*\)', c)
        if m:
            const('next_start', int(m.group(1)), 'SmData() : next_(k)')
        else:
            problems.append('anchor not found: SmData() : next_(k)')
        m = re.search(r'Atom_t\s+falseAtom\s*\(\s*\)\s*\{\s*return\s+(\d+)\s*;\s*\}', c)
        if m:
            const('false_atom', int(m.group(1)), 'SmData::falseAtom()')
        else:
            problems.append('anchor not found: falseAtom() { return k; }')
        for fld, nm in (('smId', 'smid_bits'), ('head', 'head_bits'), ('show', 'show_bits'), ('extn', 'extn_bits')):
            m = re.search(r'unsigned\s+' + fld + r'\s*:\s*(\d+)\s*;', c)
            if m:
                const(nm, int(m.group(1)), 'SmData::Atom bit-field ' + fld)
            else:
                problems.append('anchor not found: bit-field ' + fld)
        m = re.search(r'unsigned\s+atom\s*:\s*(\d+)\s*;', c)
        if m:
            const('sym_atom_bits', int(m.group(1)), 'SmData::Symbol bit-field atom')
        else:
            problems.append('anchor not found: Symbol bit-field atom')
        # the order of the flush: minimize, external, heuristic, symbols, then assume(-false)
        m = re.search(r'void\s+SmodelsConvert::flush\s*\(\s*\)\s*\{(.*?)\n\}', c, re.S)
        order = re.findall(r'(flushMinimize|flushExternal|flushHeuristic|flushSymbols|out_\.assume|flushStep)\s*\(', m.group(1)) if m else []
        C['flush_order'] = order
        if order != ['flushMinimize', 'flushExternal', 'flushHeuristic', 'flushSymbols', 'out_.assume', 'flushStep']:
            problems.append('SmodelsConvert::flush no longer has the modelled order minimize/external/heuristic/symbols/assume/flushStep: %r' % (order,))
    except OSError as e:
        problems.append(str(e))
    try:
        b = _strip(_rd(repo, 'potassco/basic_types.h'))
        m = re.search(r'inline\s+const\s+char\*\s+toString\s*\(\s*Heuristic_t\s+\w+\s*\)\s*\{(.*?)default\s*:\s*return\s*"([^"]*)"', b, re.S)
        if not m:
            problems.append('anchor not found: toString(Heuristic_t)')
        else:
            names = re.findall(r'case\s+Heuristic_t::(\w+)\s*:\s*return\s*"([^"]*)"', m.group(1))
            em = re.search(r'POTASSCO_ENUM_CONSTANTS\(\s*Heuristic_t\s*,(.*?)\)\s*;', b, re.S)
            vals = {}
            if em:
                for item in em.group(1).split(','):
                    k, v = item.split('=')
                    vals[k.strip()] = int(v.strip())
            else:
                problems.append('anchor not found: enum Heuristic_t')
            tab = []
            for k, s in names:
                if k in vals:
                    tab.append((vals[k], s))
                else:
                    problems.append('toString(Heuristic_t): unknown constant ' + k)
            C['heu_names'] = tab
            C['heu_default'] = m.group(2)
            L.append('Definition heu_names : list (Z * list Z) := [%s]. (* toString(Heuristic_t) *)' % '; '.join(
                '(%d, %s)' % (v, _coq_str(s)) for v, s in tab))
            L.append('Definition heu_default : list Z := %s.' % _coq_str(m.group(2)))
    except OSError as e:
        problems.append(str(e))
    return '\n'.join(L) + '\n', C, problems


if __name__ == '__main__':
    import sys
    t, c, p = generate(sys.argv[1] if len(sys.argv) > 1 else '/repo')
    print(t)
    print(c)
    print(p)
