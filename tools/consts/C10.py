"""Translator for C10: the tokens AspifTextInput matches (src/aspif_text.cpp) and the value / modifier names it maps
to enum constants.  Anchored regexes; a missing anchor is reported as a problem."""
import re, os


def coq_str(s):
    return '[' + '; '.join(str(b) for b in s.encode('latin-1')) + ']'


def unesc(s):
    return bytes(s, 'latin-1').decode('unicode_escape')


def generate(repo):
    problems, C, L = [], {}, []
    L.append('Require Import ZArith List. Import ListNotations.')
    L.append('Local Open Scope Z_scope.')
    src = open(os.path.join(repo, 'src', 'aspif_text.cpp'), encoding='latin-1').read()
    k = src.find('// AspifTextOutput')
    if k < 0:
        problems.append('anchor not found: end of AspifTextInput section')
        k = len(src)
    inp = src[:k]

    def piece(name, pat, flags=0):
        m = re.search(pat, inp, flags)
        if not m:
            problems.append('anchor not found: ' + name)
            return None
        v = unesc(m.group(1))
        C[name] = v
        L.append('Definition %s : list Z := %s. (* %s *)' % (name, coq_str(v), repr(v).replace('"', '<dq>').replace('*)', '* )')))
        return v

    for nm in ('minimize', 'project', 'output', 'external', 'assume', 'heuristic', 'edge', 'step'):
        piece('t_' + nm, r'if \(match\("(#%s)", false\)\)' % nm)
    piece('t_incremental', r'inc = match\("(#incremental)", false\)')
    if not re.search(r'else if \(match\("#incremental", false\)\)', inp):
        problems.append('anchor not found: #incremental inside a step')
    piece('attach_chars', r'std::strchr\("([^"]*)", n\)\)\)')
    piece('t_not', r'if \(ProgramReader::match\("(not)", false\)\)')
    if not re.search(r'require\(n >= 9 && n < 33, "[^"]*"\);\s*skipws\(\);', inp):
        problems.append('anchor not found: white space required after not')
    piece('t_choice_seps', r'data_->rule\.start\(Head_t::Choice\); matchAtoms\("([^"]*)"\)')
    piece('t_disj_seps', r'data_->rule\.start\(\); matchAtoms\("([^"]*)"\); \}')
    piece('t_lbrace', r'if \(c == \'\{\'\) \{ match\("([^"]*)"\);')
    piece('t_rbrace', r'matchAtoms\(";,"\); match\("([^"]*)"\); \}')
    piece('t_if', r'if \(match\("(:-)", false\)\)')
    piece('t_dot', r'matchAgg\(\);\s*for[^\n]*\n[^\n]*\n\s*\}\s*\}\s*\}\s*match\("([^"]*)"\);\s*data_->rule\.end\(out_\);')
    piece('t_at', r'Weight_t prio = match\("([^"]*)", false\) \? matchInt\(\) : 0;')
    piece('t_comma', r'while \(match\("([^"]*)", false\)\);\s*\}\s*\}\s*void AspifTextInput::matchCondition')
    piece('t_colon', r'if \(match\("([^"]*)", false\)\) \{ matchLits\(\); \}')
    piece('t_eq', r'if \(match\("([^"]*)", false\)\) \{ wl\.weight = matchInt\(\); \}')
    piece('t_lbrack', r'match\("\."\);\s*if \(match\("(\[)", false\)\) \{')
    piece('t_rbrack', r'else\s*\{ match\("false"\); \}\s*match\("([^"]*)"\);')
    piece('t_lpar', r'match\("(\()"\), s = matchInt\(\)')
    piece('t_rpar', r't = matchInt\(\), match\("(\))"\);')
    piece('t_quote', r'require\(ProgramReader::match\("(\\")", false\)')
    piece('t_false', r'else\s*\{ match\("(false)"\); \}')
    if not re.search(r'require\(weight\(\*it\) >= 0, "[^"]*"\);', inp):
        problems.append('anchor not found: non-negative weight check in rule bodies')
    # external values, in the order they are tried
    bt = open(os.path.join(repo, 'potassco', 'basic_types.h'), encoding='latin-1').read()

    def enum_vals(name):
        m = re.search(r'POTASSCO_ENUM_CONSTANTS\(%s,(.*?)\);' % name, bt, re.S)
        vals = {}
        if not m:
            problems.append('anchor not found: enum ' + name)
            return vals
        for item in m.group(1).split(','):
            if '=' in item:
                a, b = item.split('=')
                vals[a.strip()] = int(b.strip())
        return vals
    vv = enum_vals('Value_t')
    ext = re.findall(r'(?:if|else if)\s*\(match\("(\w+)", false\)\)\s*\{ v = Value_t::(\w+); \}', inp)
    if len(ext) != 3:
        problems.append('anchor not found: #external value names')
    C['ext_tab'] = [(vv.get(b, -1), a) for a, b in ext]
    L.append('Definition ext_tab : list (Z * list Z) := [%s].' % '; '.join('(%d, %s)' % (vv.get(b, -1), coq_str(a)) for a, b in ext))
    m = re.search(r'Value_t v = Value_t::(\w+);', inp)
    if m and m.group(1) in vv:
        L.append('Definition ext_false : Z := %d.' % vv[m.group(1)])
        C['ext_false'] = vv[m.group(1)]
    else:
        problems.append('anchor not found: default #external value')
    # heuristic modifiers: for x in 0..eMax: match(toString(x))
    hv = enum_vals('Heuristic_t')
    m = re.search(r'inline const char\* toString\(Heuristic_t t\) \{(.*?)\n\}', bt, re.S)
    tab = []
    if m:
        for mm in re.finditer(r'case Heuristic_t::(\w+)\s*:\s*return "([^"]*)";', m.group(1)):
            tab.append((hv.get(mm.group(1), -1), mm.group(2)))
    tab.sort()
    if [v for v, _ in tab] != list(range(len(tab))) or not tab:
        problems.append('anchor not found: toString(Heuristic_t) covering 0..eMax')
    if not re.search(r'for \(unsigned x = 0; x <= static_cast<unsigned>\(Heuristic_t::eMax\); \+\+x\)', inp):
        problems.append('anchor not found: heuristic modifier loop')
    C['heu_tab'] = tab
    L.append('Definition heu_tab : list (Z * list Z) := [%s].' % '; '.join('(%d, %s)' % (v, coq_str(s)) for v, s in tab))
    return '\n'.join(L) + '\n', C, problems
