"""C12 translator: constants of the tagged term word, bit-field widths, sentinel values and the
exception classes behind the checks of TheoryData, read from potassco/theory_data.h, src/theory_data.cpp,
potassco/platform.h and src/string_convert.cpp.  Every anchor that is not found is reported."""
import os, re


def rd(repo, rel):
    return open(os.path.join(repo, rel), encoding='latin-1').read()


def strip(s):
    s = re.sub(r'/\*.*?\*/', ' ', s, flags=re.S)
    return re.sub(r'//[^\n]*', ' ', s)


# exception class codes printed by harness/h_c12.cpp
CLASS = {'logic_error': 1, 'runtime_error': 2, 'bad_alloc': 3, 'invalid_argument': 4, 'domain_error': 5,
         'range_error': 6, 'overflow_error': 7}


def generate(repo):
    P, C, L = [], {}, []
    L.append('Require Import ZArith. Local Open Scope Z_scope.')

    def const(n, v, src):
        C[n] = v
        L.append('Definition %s : Z := %d. (* %s *)' % (n, v, src))
    try:
        cpp = strip(rd(repo, 'src/theory_data.cpp'))
        hdr = strip(rd(repo, 'potassco/theory_data.h'))
        plat = strip(rd(repo, 'potassco/platform.h'))
        sc = strip(rd(repo, 'src/string_convert.cpp'))
    except OSError as e:
        return None, {}, [str(e)]

    m = re.search(r'const\s+uint64_t\s+nulTerm\s*=\s*static_cast<uint64_t>\(\s*-1\s*\)\s*;', cpp)
    if m:
        const('NUL_TERM', 2 ** 64 - 1, 'nulTerm = static_cast<uint64_t>(-1)')
    else:
        P.append('anchor not found: nulTerm')
    const('WORD', 2 ** 64, 'uint64_t data_')
    if not re.search(r'uint64_t\s+data_\s*;', hdr):
        P.append('anchor not found: uint64_t data_')
    m = re.search(r'const\s+uint64_t\s+typeMask\s*=\s*static_cast<uint64_t>\(\s*(\d+)\s*\)\s*;', cpp)
    if m:
        const('TYPE_MASK', int(m.group(1)), 'typeMask')
    else:
        P.append('anchor not found: typeMask')
    m = re.search(r'data_\s*=\s*\(\s*static_cast<uint64_t>\(num\)\s*<<\s*(\d+)\s*\)\s*\|\s*Theory_t::Number\s*;', cpp)
    m2 = re.search(r'return\s+static_cast<int>\(\s*data_\s*>>\s*(\d+)\s*\)\s*;', cpp)
    if m and m2 and m.group(1) == m2.group(1):
        const('TAG_SHIFT', int(m.group(1)), 'TheoryTerm(int): << k ; number(): >> k')
        const('TAG_MUL', 2 ** int(m.group(1)), '2^TAG_SHIFT')
    else:
        P.append('anchor not found: number tag shift (constructor and number() must use the same shift)')
    if not re.search(r'data_\s*=\s*\(\s*assertPtr\(sym\)\s*\|\s*Theory_t::Symbol\s*\)\s*;', cpp):
        P.append('anchor not found: symbol word = ptr | Symbol')
    if not re.search(r'data_\s*=\s*\(\s*assertPtr\(c\)\s*\|\s*Theory_t::Compound\s*\)\s*;', cpp):
        P.append('anchor not found: compound word = ptr | Compound')
    m = re.search(r'POTASSCO_REQUIRE\(\s*\(data\s*&\s*(\d+)u?\)\s*==\s*0u?\s*,', cpp)
    if m:
        const('ALIGN', int(m.group(1)) + 1, 'assertPtr: (data & k) == 0  -> alignment k+1')
    else:
        P.append('anchor not found: assertPtr alignment check')
    if not re.search(r'return\s+static_cast<uintptr_t>\(\s*data_\s*&\s*~typeMask\s*\)\s*;', cpp):
        P.append('anchor not found: getPtr = data_ & ~typeMask')
    if not re.search(r'static_cast<Theory_t>\(\s*data_\s*&\s*typeMask\s*\)', cpp):
        P.append('anchor not found: type() = data_ & typeMask')
    m = re.search(r'static\s+const\s+Id_t\s+COND_DEFERRED\s*=\s*static_cast<Id_t>\(\s*-1\s*\)\s*;', hdr)
    if m:
        const('COND_DEFERRED', 2 ** 32 - 1, 'TheoryData::COND_DEFERRED = static_cast<Id_t>(-1)')
    else:
        P.append('anchor not found: COND_DEFERRED')
    m = re.search(r'uint32_t\s+atom_\s*:\s*(\d+)\s*;', hdr)
    if m:
        const('ATOM_BITS', int(m.group(1)), 'TheoryAtom::atom_ bit-field width')
        const('ATOM_MOD', 2 ** int(m.group(1)), '2^ATOM_BITS')
    else:
        P.append('anchor not found: atom_ bit-field')
    m = re.search(r'int32_t\s+base\s*;', cpp)
    if m:
        const('BASE_BITS', 32, 'FuncData::base is int32_t')
    else:
        P.append('anchor not found: FuncData::base')
    # which macro guards what, and which exception class that macro produces
    macros = {}
    for mac in ('POTASSCO_REQUIRE', 'POTASSCO_ASSERT'):
        m = re.search(r'#define\s+' + mac + r'\(exp,\s*\.\.\.\)\s*POTASSCO_CHECK\(exp,\s*Potassco::(\w+)', plat)
        if not m:
            P.append('anchor not found: ' + mac)
            continue
        ec = m.group(1)
        m = re.search(r'case\s+' + ec + r'\s*:\s*throw\s+std::(\w+)', sc)
        if not m or m.group(1) not in CLASS:
            P.append('anchor not found: exception class for ' + ec)
            continue
        macros[mac] = CLASS[m.group(1)]
    checks = [('EC_REDEF_TERM', r'(POTASSCO_\w+)\(\s*!isNewTerm\(id\)'), ('EC_REDEF_ELEM', r'(POTASSCO_\w+)\(\s*!isNewElement\(id\)'),
              ('EC_UNKNOWN_TERM', r'(POTASSCO_\w+)\(\s*hasTerm\(id\)'), ('EC_UNKNOWN_ELEM', r'(POTASSCO_\w+)\(\s*hasElement\(id\)'),
              ('EC_NOT_DEFERRED', r'(POTASSCO_\w+)\(\s*getElement\(elementId\)\.condition\(\)\s*==\s*COND_DEFERRED\s*\)'),
              ('EC_ALIGN', r'(POTASSCO_\w+)\(\s*\(data\s*&')]
    for name, pat in checks:
        m = re.search(pat, cpp)
        if m and m.group(1) in macros:
            const(name, macros[m.group(1)], m.group(1) + ' -> exception class code')
        else:
            P.append('anchor not found: check ' + name)
    const('EC_FAULT', 99, 'model only: memory fault (dangling read, double free, kind mismatch, fuel)')
    C['classes'] = CLASS
    return '\n'.join(L) + '\n', C, P
