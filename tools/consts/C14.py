"""Translator for C14 (constants only: the shape of the code is tied to the model by the correspondence run, not by regexes)
Translator for C14 (and C13's lookup part): constants of OptionContext lookup read from the sources.

generate(repo) -> (coq_text, dict, problems).  Every regex is anchored on the statement the model mirrors;
a missing anchor is reported as a problem (= broken obligation), never defaulted.
"""
import re, os, subprocess


def _rd(repo, rel):
    return open(os.path.join(repo, rel), encoding='latin-1').read()


def _strip(s):
    s = re.sub(r'/\*.*?\*/', ' ', s, flags=re.S)
    return re.sub(r'//[^\n]*', ' ', s)


def _body(txt, head_re):
    """Text of the function body whose head matches head_re (brace matching)."""
    m = re.search(head_re, txt)
    if not m:
        return None
    i = txt.find('{', m.end() - 1)
    depth, j = 0, i
    while j < len(txt):
        if txt[j] == '{':
            depth += 1
        elif txt[j] == '}':
            depth -= 1
            if depth == 0:
                return txt[i:j + 1]
        j += 1
    return None


def char_max(problems):
    """CHAR_MAX of the compiler that builds the harness (char signedness decides)."""
    try:
        cxx = os.environ.get('VERIF_CXX', 'g++')
        out = subprocess.run([cxx, '-dM', '-E', '-x', 'c++', '-'], input='', stdout=subprocess.PIPE, stderr=subprocess.PIPE,
                             text=True, timeout=60).stdout
        m = re.search(r'#define __SCHAR_MAX__ (\S+)', out)
        if not m:
            problems.append('anchor not found: __SCHAR_MAX__')
            return None
        smax = int(m.group(1), 0)
        return 2 * smax + 1 if '__CHAR_UNSIGNED__' in out else smax
    except Exception as e:  # noqa
        problems.append('cannot determine CHAR_MAX: %r' % (e,))
        return None


def compiler_macros(problems):
    try:
        cxx = os.environ.get('VERIF_CXX', 'g++')
        out = subprocess.run([cxx, '-dM', '-E', '-x', 'c++', '-'], input='', stdout=subprocess.PIPE, stderr=subprocess.PIPE,
                             text=True, timeout=60).stdout
        return dict(m.groups() for m in re.finditer(r'#define (\w+) (.*)', out))
    except Exception as e:  # noqa
        problems.append('cannot run the harness compiler for its predefined macros: %r' % (e,))
        return {}


def _lit(v):
    return int(re.sub(r'[uUlL]+$', '', v.strip()), 0)


def int_type_max(spelling, macros):
    """Largest value of an integer type spelled as in the typedef of key_type, on the compiler that builds the harness; None = not a type the translator knows."""
    w = spelling.replace('std::', ' ').split()
    w = [x for x in w if x not in ('const', 'int') or x == 'int' and len([y for y in w if y != 'const']) == 1]
    t = ' '.join(sorted(w))
    try:
        smax = {'char': '__SCHAR_MAX__', 'short': '__SHRT_MAX__', 'int': '__INT_MAX__', 'long': '__LONG_MAX__', 'long long': '__LONG_LONG_MAX__'}
        named = {'size_t': '__SIZE_MAX__', 'uint8_t': '__UINT8_MAX__', 'uint16_t': '__UINT16_MAX__', 'uint32_t': '__UINT32_MAX__', 'uint64_t': '__UINT64_MAX__',
                 'uintptr_t': '__UINTPTR_MAX__', 'int8_t': '__INT8_MAX__', 'int16_t': '__INT16_MAX__', 'int32_t': '__INT32_MAX__', 'int64_t': '__INT64_MAX__',
                 'ptrdiff_t': '__PTRDIFF_MAX__'}
        if t in named:
            return _lit(macros[named[t]])
        if t == 'unsigned':
            return 2 * _lit(macros['__INT_MAX__']) + 1
        if t == 'signed':
            return _lit(macros['__INT_MAX__'])
        uns = 'unsigned' in w
        base = ' '.join(x for x in w if x not in ('unsigned', 'signed'))
        if base == 'char' and not uns and 'signed' not in w:
            return None          # plain char as an option number: not a type the translator wants to judge
        if base in smax:
            m = _lit(macros[smax[base]])
            return 2 * m + 1 if uns else m
    except (KeyError, ValueError):
        return None
    return None


def generate(repo):
    problems, C, L = [], {}, []
    add = L.append
    add('Require Import ZArith List. Import ListNotations.')
    add('Local Open Scope Z_scope.')

    def const(name, val, src):
        C[name] = val
        add('Definition %s : Z := %d. (* %s *)' % (name, val, src))

    try:
        h = _strip(_rd(repo, 'potassco/program_opts/program_options.h'))
        cpp = _strip(_rd(repo, 'src/program_options.cpp'))
    except OSError as e:
        return None, {}, [str(e)]

    # enum FindType
    m = re.search(r'enum\s+FindType\s*\{([^}]*)\}', h)
    if not m:
        problems.append('anchor not found: enum FindType')
    else:
        env = {}
        for item in m.group(1).split(','):
            if '=' not in item:
                problems.append('FindType enumerator without value: ' + item.strip())
                continue
            k, v = [x.strip() for x in item.split('=')]
            try:
                env[k] = eval(v, {'__builtins__': {}}, dict(env))
            except Exception as e:  # noqa
                problems.append('cannot evaluate FindType::%s = %s' % (k, v))
        for k in ('find_name', 'find_prefix', 'find_name_or_prefix', 'find_alias'):
            if k in env:
                const(k, env[k], 'OptionContext::FindType')
            else:
                problems.append('anchor not found: FindType::' + k)

    # findImpl
    fi = _body(cpp, r'OptionContext::PrefixRange\s+OptionContext::findImpl\s*\(')
    if fi is None:
        problems.append('anchor not found: OptionContext::findImpl')
    else:
        cm = char_max(problems)
        if re.search(r'k\s*\+=\s*char\s*\(\s*CHAR_MAX\s*\)\s*;\s*up\s*=\s*index_\.upper_bound\s*\(\s*k\s*\)', fi) and cm is not None:
            const('CHAR_MAX', cm, 'findImpl: k += char(CHAR_MAX); up = index_.upper_bound(k)  [<climits> of the harness compiler]')
        else:
            problems.append('anchor not found: findImpl upper_bound(k + CHAR_MAX)')
        if not re.search(r'index_iterator\s+it\s*=\s*index_\.lower_bound\s*\(\s*k\s*\)', fi):
            problems.append('anchor not found: findImpl lower_bound(k)')
        m = re.search(r"t\s*==\s*find_alias\s*&&\s*!k\.empty\(\)\s*&&\s*k\[0\]\s*!=\s*'(.)'\s*\)\s*\{\s*k\s*\+=\s*k\[0\]\s*;\s*k\[0\]\s*=\s*'(.)'", fi)
        if m and m.group(1) == m.group(2):
            const('DASH', ord(m.group(1)), "findImpl: alias key rewriting c -> '-c'")
        else:
            problems.append('anchor not found: findImpl alias key rewriting')
        m = re.search(r'std::distance\(it,\s*up\)\s*!=\s*1\s*&&\s*eMask\)\s*\{\s*if\s*\(\(eMask\s*&\s*(\d+)u\)\s*&&\s*it\s*==\s*up\)\s*\{\s*throw\s+UnknownOption'
                      r'.*?if\s*\(\(eMask\s*&\s*(\d+)u\)\s*&&\s*it\s*!=\s*up\)', fi, re.S)
        if m and re.search(r'throw\s+AmbiguousOption', fi):
            const('emask_unknown', int(m.group(1)), 'findImpl: (eMask & 1u) && it == up -> UnknownOption')
            const('emask_ambiguous', int(m.group(2)), 'findImpl: (eMask & 2u) && it != up -> AmbiguousOption')
        else:
            problems.append('anchor not found: findImpl error mask policy')

    # find / tryFind masks
    m = re.search(r'OptionContext::find\s*\([^)]*\)\s*const\s*\{\s*return\s+options_\.begin\(\)\s*\+\s*findImpl\(key,\s*t,\s*unsigned\(-1\)\)\.first->second', cpp)
    if m:
        const('find_emask', 2 ** 32 - 1, 'find: findImpl(key, t, unsigned(-1))')
    else:
        problems.append('anchor not found: OptionContext::find')
    m = re.search(r'OptionContext::tryFind\s*\([^)]*\)\s*const\s*\{\s*PrefixRange\s+r\s*=\s*findImpl\(key,\s*t,\s*(\d+)u\);\s*return\s+std::distance\(r\.first,\s*r\.second\)\s*==\s*1', cpp)
    if m:
        const('tryfind_emask', int(m.group(1)), 'tryFind: findImpl(key, t, 0u), distance == 1')
    else:
        problems.append('anchor not found: OptionContext::tryFind')
    # DefaultContext
    m = re.search(r'eMask\s*\(\s*(\d+)u\s*\+\s*unsigned\s*\(\s*!allowUnreg\s*\)\s*\)', cpp)
    if m:
        const('ctx_emask_base', int(m.group(1)), 'DefaultContext: eMask(2u + unsigned(!allowUnreg))')
    else:
        problems.append('anchor not found: DefaultContext eMask')
    # insertOption: alias key, order of the two insertions, erase on refusal
    io = _body(cpp, r'void\s+OptionContext::insertOption\s*\(')
    if io is None:
        problems.append('anchor not found: OptionContext::insertOption')
    else:
        m = re.search(r"char\s+sName\[2\]\s*=\s*\{\s*'(.)'\s*,\s*opt->alias\(\)\s*\}", io)
        if not m or ord(m.group(1)) != C.get('DASH', ord(m.group(1))):
            problems.append('anchor not found: insertOption alias key')
    # the option NUMBER stored in the name index: typedef <type> key_type; std::map<std::string, key_type>; key_type k(options_.size()) / k(option - begin())
    cls = re.search(r'class\s+OptionContext\s*\{(.*?)\n\};', h, re.S)
    m = re.search(r'typedef\s+([\w:\s]+?)\s+key_type\s*;', cls.group(1)) if cls else None
    if not m:
        problems.append('anchor not found: OptionContext: typedef <type> key_type')
    else:
        ty = ' '.join(m.group(1).split())
        mx = int_type_max(ty, compiler_macros(problems))
        if mx is None:
            problems.append('OptionContext::key_type: type %r is not an integer type the translator knows (the model needs the range of the option number stored in the index)' % ty)
        else:
            const('key_max', mx, 'OptionContext: typedef %s key_type  [largest option number an index entry can hold; limits of the harness compiler]' % ty)
        if not re.search(r'typedef\s+std::map\s*<\s*std::string\s*,\s*key_type\s*>\s*Name2Key\s*;', cls.group(1)):
            problems.append('anchor not found: OptionContext: typedef std::map<std::string, key_type> Name2Key')
        if io is not None and not re.search(r'key_type\s+k\s*\(\s*options_\.size\(\)\s*\)', io):
            problems.append('anchor not found: insertOption: key_type k(options_.size())')
        aa = _body(cpp, r'OptionContext&\s+OptionContext::addAlias\s*\(')
        if aa is None or not re.search(r'key_type\s+k\s*\(\s*option\s*-\s*begin\(\)\s*\)', aa):
            problems.append('anchor not found: addAlias: key_type k(option - begin())')
    return '\n'.join(L) + '\n', C, problems


if __name__ == '__main__':
    import sys
    t, c, p = generate(sys.argv[1] if len(sys.argv) > 1 else '/repo')
    print(t)
    print(c)
    print(p)
