"""Translator for C19: the literal format strings of DefaultFormat::format (in source order), the decorations
"[no-]" / "|no", the buffer slack (+3), the summands of Option::maxColumn, the minimal column width (23), the line
width of OptionContext::defaults (78), DescriptionLevel values, default argument name / implicit value, and the
placeholder letters of the description formatter.  Every anchor that is not found is reported as a problem."""
import os, re


def rd(repo, rel):
    return open(os.path.join(repo, rel), encoding='latin-1').read()


def strip(s):
    s = re.sub(r'/\*.*?\*/', ' ', s, flags=re.S)
    return re.sub(r'//[^\n]*', ' ', s)


def unesc(s):
    return bytes(s, 'latin-1').decode('unicode_escape')


def coq_str(s):
    return '[' + '; '.join(str(b) for b in s.encode('latin-1')) + ']'


def func_body(txt, header_re, problems, what):
    m = re.search(header_re, txt)
    if not m:
        problems.append('anchor not found: ' + what)
        return ''
    i = txt.index('{', m.end() - 1)
    depth, j = 0, i
    while j < len(txt):
        if txt[j] == '{':
            depth += 1
        elif txt[j] == '}':
            depth -= 1
            if depth == 0:
                return txt[i:j + 1]
        j += 1
    problems.append('unbalanced body: ' + what)
    return ''


def generate(repo):
    problems, C, L = [], {}, []
    add = L.append
    add('Require Import ZArith List. Import ListNotations.')
    add('Local Open Scope Z_scope.')

    def zconst(name, val, src):
        C[name] = val
        add('Definition %s : Z := %d. (* %s *)' % (name, val, src))

    def sconst(name, val, src):
        C[name] = val
        add('Definition %s : list Z := %s. (* %s: %r *)' % (name, coq_str(val), src, val))
    try:
        raw = rd(repo, 'src/program_options.cpp')
        p = strip(raw)
        # --- DefaultFormat::format(buf, Option, maxW)
        b = func_body(p, r'std::size_t\s+DefaultFormat::format\(std::vector<char>&\s*buf,\s*const Option&\s*o,\s*std::size_t\s+maxW\)\s*\{', problems, 'DefaultFormat::format(Option)')
        fm = re.findall(r'sprintf\(\s*buffer(?:\s*\+\s*n)?\s*,\s*"((?:[^"\\]|\\.)*)"', b)
        names = ['FMT_NAME', 'FMT_IMPLICIT_ARG', 'FMT_ALIAS', 'FMT_ARG', 'FMT_PAD']
        if len(fm) != 5:
            problems.append('expected 5 sprintf calls in DefaultFormat::format(Option), found %d' % len(fm))
        else:
            for nm, f in zip(names, fm):
                sconst(nm, unesc(f), 'sprintf format')
        m = re.search(r'bufSize\s*=\s*std::max\(maxW,\s*o\.maxColumn\(\)\)\s*\+\s*(\d+)\s*;', b)
        if m:
            zconst('BUF_SLACK', int(m.group(1)), 'bufSize = max(maxW, maxColumn) + k')
        else:
            problems.append('anchor not found: bufSize = std::max(maxW, o.maxColumn()) + k')
        m = re.search(r'np\s*=\s*"([^"]*)"\s*;\s*\}\s*else\s*\{\s*ap\s*=\s*"([^"]*)"\s*;\s*bufSize\s*\+=\s*strlen\(ap\)', b)
        if m:
            sconst('NEG_PREFIX', m.group(1), 'np')
            sconst('NEG_SUFFIX', m.group(2), 'ap')
        else:
            problems.append('anchor not found: np / ap decorations')
        m = re.search(r'\(\s*!o\.alias\(\)\s*\?\s*\'(.)\'\s*:\s*\'(.)\'\s*\)', b)
        if m:
            zconst('ARG_SEP_NOALIAS', ord(m.group(1)), "separator before the argument without alias")
            zconst('ARG_SEP_ALIAS', ord(m.group(2)), "separator before the argument with alias")
        else:
            problems.append("anchor not found: (!o.alias()?'=':' ')")
        m = re.search(r'int\(maxW-n\),\s*int\(maxW-n\),\s*"( )"', b)
        if m:
            sconst('PAD_STR', m.group(1), 'padding string')
        else:
            problems.append('anchor not found: padding argument')
        # --- Option::maxColumn
        b = func_body(p, r'std::size_t\s+Option::maxColumn\(\)\s*const\s*\{', problems, 'Option::maxColumn')
        m = re.search(r'col\s*=\s*(\d+)\s*\+\s*name_\.size\(\)\s*;.*?if\s*\(alias\(\)\)\s*\{\s*col\s*\+=\s*(\d+)\s*;.*?'
                      r'if\s*\(argN\)\s*\{\s*col\s*\+=\s*\(argN\s*\+\s*(\d+)\)\s*;.*?isImplicit\(\)\)\s*\{\s*col\s*\+=\s*(\d+)\s*;.*?'
                      r'isNegatable\(\)\)\s*\{\s*col\s*\+=\s*(\d+)\s*;.*?else\s+if\s*\(value\(\)->isNegatable\(\)\)\s*\{\s*col\s*\+=\s*(\d+)\s*;', b, re.S)
        if m:
            for nm, g in zip(['COL_BASE', 'COL_ALIAS', 'COL_ARG', 'COL_IMPLICIT', 'COL_NEG_ARG', 'COL_NEG_NOARG'], m.groups()):
                zconst(nm, int(g), 'Option::maxColumn')
        else:
            problems.append('anchor not found: structure of Option::maxColumn')
        # --- description / defaults
        b = func_body(p, r'OptionOutput&\s+OptionContext::description\(OptionOutput&\s*out\)\s*const\s*\{', problems, 'OptionContext::description')
        m = re.search(r'size_t\s+maxW\s*=\s*(\d+)\s*;', b)
        if m:
            zconst('MIN_COLUMN', int(m.group(1)), 'OptionContext::description maxW')
        else:
            problems.append('anchor not found: maxW = 23')
        b = func_body(p, r'std::string\s+OptionContext::defaults\(std::size_t\s+n\)\s*const\s*\{', problems, 'OptionContext::defaults')
        m = re.search(r'line\s*\+\s*opt\.size\(\)\s*>\s*(\d+)', b)
        if m:
            zconst('LINE_WIDTH', int(m.group(1)), 'OptionContext::defaults wrap column')
        else:
            problems.append('anchor not found: line + opt.size() > 78')
        m = re.search(r'opt\s*\+=\s*"([^"]*)"\)\s*\+=\s*o\.name\(\)\)\s*\+=\s*"([^"]*)"\)\s*\+=\s*o\.value\(\)->defaultsTo\(\)', b)
        if m:
            sconst('DEF_PREFIX', m.group(1), 'defaults()')
            sconst('DEF_ASSIGN', m.group(2), 'defaults()')
        else:
            problems.append('anchor not found: opt += "--" name "=" default')
        # --- description formatter: placeholders and frame
        b = func_body(p, r'std::size_t\s+DefaultFormat::format\(std::vector<char>&\s*buf,\s*const char\*\s*desc,\s*const Value&\s*val,\s*std::size_t\)\s*\{', problems, 'DefaultFormat::format(desc)')
        m = re.search(r"\*look\s*==\s*'(.)'\)\s*\{\s*temp\s*=\s*val\.defaultsTo\(\).*?\*look\s*==\s*'(.)'\)\s*\{\s*temp\s*=\s*val\.arg\(\).*?\*look\s*==\s*'(.)'\)\s*\{\s*temp\s*=\s*val\.implicit\(\)", b, re.S)
        if m:
            zconst('PH_DEFAULT', ord(m.group(1)), 'placeholder letter')
            zconst('PH_ARG', ord(m.group(2)), 'placeholder letter')
            zconst('PH_IMPLICIT', ord(m.group(3)), 'placeholder letter')
        else:
            problems.append('anchor not found: placeholder letters D A I')
        m = re.search(r"push_back\('(.)'\);\s*buf\.push_back\('(.)'\);", b)
        m2 = re.search(r"buf\.push_back\('(\\n)'\);\s*return buf\.size\(\)", b)
        if m and m2:
            sconst('DESC_LEAD', m.group(1) + m.group(2), 'description lead-in')
            sconst('DESC_END', unesc(m2.group(1)), 'description end')
        else:
            problems.append('anchor not found: description frame')
        m = re.search(r"\*look\s*!=\s*'(.)'", b)
        if m:
            zconst('PH_ESC', ord(m.group(1)), 'placeholder introducer')
        else:
            problems.append("anchor not found: *look != '%'")
        # --- group caption frame
        b = func_body(p, r'std::size_t\s+DefaultFormat::format\(std::vector<char>&\s*buffer,\s*const OptionGroup&\s*grp\)\s*\{', problems, 'DefaultFormat::format(group)')
        m = re.search(r"push_back\('(\\n)'\);\s*buffer\.insert\(buffer\.end\(\),\s*grp\.caption\(\)\.begin\(\),\s*grp\.caption\(\)\.end\(\)\);\s*"
                      r"buffer\.push_back\('(.)'\);\s*buffer\.push_back\('(\\n)'\);\s*buffer\.push_back\('(\\n)'\);", b)
        if m and re.search(r'if\s*\(grp\.caption\(\)\.length\(\)\)', b):
            sconst('GROUP_LEAD', unesc(m.group(1)), 'group caption lead-in')
            sconst('GROUP_END', m.group(2) + unesc(m.group(3)) + unesc(m.group(4)), 'group caption end')
        else:
            problems.append('anchor not found: group caption frame')
        # --- Value::arg / implicit
        m = re.search(r'return\s+isFlag\(\)\s*\?\s*"([^"]*)"\s*:\s*"([^"]*)"\s*;', p)
        if m:
            sconst('ARG_FLAG', m.group(1), 'Value::arg() of a flag')
            sconst('ARG_DEFAULT', m.group(2), 'Value::arg() default')
        else:
            problems.append('anchor not found: Value::arg default names')
        m = re.search(r'const char\*\s+Value::implicit\(\)\s*const\s*\{.*?return\s+x\s*\?\s*x\s*:\s*"([^"]*)"\s*;', p, re.S)
        if m:
            sconst('IMPLICIT_DEFAULT', m.group(1), 'Value::implicit() default')
        else:
            problems.append('anchor not found: Value::implicit() default string')
        # --- levels
        v = strip(rd(repo, 'potassco/program_opts/value.h'))
        m = re.search(r'enum\s+DescriptionLevel\s*\{(.*?)\}', v, re.S)
        if m:
            tab = dict((k.strip(), int(x)) for k, x in (it.split('=') for it in m.group(1).split(',') if '=' in it))
            for k, nm in (('desc_level_default', 'LEVEL_DEFAULT'), ('desc_level_all', 'LEVEL_ALL'), ('desc_level_hidden', 'LEVEL_HIDDEN')):
                if k in tab:
                    zconst(nm, tab[k], 'value.h DescriptionLevel')
                else:
                    problems.append('anchor not found: ' + k)
        else:
            problems.append('anchor not found: enum DescriptionLevel')
        # --- key syntax name[!][,alias][,@level]: the characters OptionInitHelper::operator() looks for, the base of the level number,
        #     the width of the `unsigned` the level is accumulated in (harness compiler) and the bound it is checked against
        b = func_body(p, r'OptionInitHelper&\s+OptionInitHelper::operator\(\)\(const char\*\s*name,\s*Value\*\s*val,\s*const char\*\s*desc\)\s*\{', problems, 'OptionInitHelper::operator()')
        m = re.search(r"strchr\(name,\s*'(.)'\)", b)
        m2 = re.search(r"\*name\s*==\s*'(.)'\s*\|\|\s*\*name\s*==\s*'(.)'", b)
        if m and m2 and m2.group(1) == m.group(1):
            zconst('KEY_SEP', ord(m.group(1)), "key syntax: separator of the parts")
        else:
            problems.append("anchor not found: strchr(name, ',') / *name == ','")
        m = re.search(r"\*\(longName\.end\(\)\s*-\s*1\)\s*==\s*'(.)'", b)
        if m and m2 and m2.group(2) == m.group(1):
            zconst('KEY_NEG', ord(m.group(1)), "key syntax: negatable marker")
        else:
            problems.append("anchor not found: *(longName.end()-1) == '!' / *name == '!'")
        m = re.search(r"\*\(longName\.end\(\)\s*-\s*2\)\s*!=\s*'(\\\\|.)'", b)
        if m:
            zconst('KEY_ESC', ord(unesc(m.group(1))), "key syntax: escape in front of a literal '!'")
        else:
            problems.append("anchor not found: *(longName.end()-2) != '\\\\'")
        m = re.search(r"\*x\s*==\s*'(.)'\)\s*\{\s*\+\+x;\s*level\s*=\s*(\d+)\s*;", b)
        if m and int(m.group(2)) == 0:
            zconst('KEY_LEVEL', ord(m.group(1)), "key syntax: introducer of the level")
        else:
            problems.append("anchor not found: if (*x == '@') { ++x; level = 0;")
        m = re.search(r"\*x\s*>=\s*'(.)'\s*&&\s*\*x\s*<=\s*'(.)'\)\s*\{\s*level\s*\*=\s*(\d+)\s*;\s*level\s*\+=\s*\*x\s*-\s*'(.)'", b)
        if m and m.group(1) == m.group(4):
            zconst('KEY_DIGIT_LO', ord(m.group(1)), 'key syntax: first digit')
            zconst('KEY_DIGIT_HI', ord(m.group(2)), 'key syntax: last digit')
            zconst('KEY_BASE', int(m.group(3)), 'key syntax: base of the level number')
        else:
            problems.append("anchor not found: level *= 10; level += *x - '0'")
        if not re.search(r'unsigned\s+level\b', b) or not re.search(r'level\s*>\s*desc_level_hidden', b):
            problems.append('anchor not found: unsigned level ... level > desc_level_hidden')
        zconst('UINT_MOD', 2 ** 32, 'range of `unsigned` (the level of a key is accumulated in an unsigned)')
        if not re.search(r'descLevel_\s*=\s*std::min\(x,\s*desc_level_all\)', p):
            problems.append('anchor not found: setActiveDescLevel clamps to desc_level_all')
    except OSError as ex:
        problems.append(str(ex))
    return '\n'.join(L) + '\n', C, problems


if __name__ == '__main__':
    t, c, p = generate('/repo')
    print(t)
    print(p)
