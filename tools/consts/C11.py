"""Translator for C11 (RuleBuilder): layout of struct RuleBuilder::Rule (bit-field widths -> sizeof),
initial region size, element sizes, growth policy of MemoryRegion::grow, Minimize directive value.
Every anchor that is not found is reported as a problem (never replaced by a default)."""
import os, re


def rd(repo, rel):
    return open(os.path.join(repo, rel), encoding='latin-1').read()


def strip(s):
    s = re.sub(r'/\*.*?\*/', ' ', s, flags=re.S)
    return re.sub(r'//[^\n]*', ' ', s)


WIDTH = {'uint32_t': 4, 'int32_t': 4, 'unsigned': 4, 'int': 4}


def pack(fields, problems, what):
    """sizeof of a struct of 32-bit (bit-)fields under the usual ABI: consecutive bit-fields share a unit while they fit."""
    size, bits = 0, 0
    for ty, name, w in fields:
        if ty not in WIDTH:
            problems.append('%s: field %s has unexpected type %s' % (what, name, ty))
            return 0
        if w is None:
            if bits:
                size, bits = size + 4, 0
            size += WIDTH[ty]
        else:
            if bits + w > 32:
                size, bits = size + 4, 0
            bits += w
    if bits:
        size += 4
    return size


def generate(repo):
    problems, C, L = [], {}, []
    add = L.append
    add('Require Import ZArith. Local Open Scope Z_scope.')

    def const(name, val, src):
        C[name] = val
        add('Definition %s : Z := %d. (* %s *)' % (name, val, src))
    try:
        r = strip(rd(repo, 'src/rule_utils.cpp'))
        m = re.search(r'struct\s+RuleBuilder::Rule\s*\{(.*?)\n\};', r, re.S)
        if not m:
            problems.append('anchor not found: struct RuleBuilder::Rule')
        else:
            body = m.group(1)
            ms = re.search(r'struct\s+Span\s*\{(.*?)\n\t\};', body, re.S)
            if not ms:
                problems.append('anchor not found: struct RuleBuilder::Rule::Span')
            else:
                sf = [(t, n, int(w) if w else None) for t, n, w in re.findall(r'\b(uint32_t|int32_t|unsigned|int)\s+(\w+)\s*(?::\s*(\d+))?\s*;', ms.group(1))]
                names = [n for _, n, _ in sf]
                if names != ['mbeg', 'type', 'mend']:
                    problems.append('struct Span: unexpected fields %s' % names)
                span_size = pack(sf, problems, 'Span')
                rest = body.replace(ms.group(0), ' ')
                rf = [(t, n, int(w) if w else None) for t, n, w in re.findall(r'\b(uint32_t|int32_t|unsigned|int)\s+(\w+)\s*(?::\s*(\d+))?\s*;', rest)]
                if [n for _, n, _ in rf] != ['top', 'fix']:
                    problems.append('struct Rule: unexpected scalar fields %s' % [n for _, n, _ in rf])
                spans = re.findall(r'\bSpan\s+(\w+)\s*;', rest)
                if spans != ['head', 'body']:
                    problems.append('struct Rule: unexpected span members %s' % spans)
                const('RB_SPAN_SIZE', span_size, 'sizeof(RuleBuilder::Rule::Span)')
                const('RB_HDR', pack(rf, problems, 'Rule') + span_size * len(spans), 'sizeof(RuleBuilder::Rule): top/fix word + head + body spans')
                for (t, n, w) in sf + rf:
                    if w is not None:
                        const('RB_BITS_' + n, w, 'bit-field width')
            if not re.search(r'Rule\(\)\s*\{\s*head\.init\(0,\s*0\);\s*body\.init\(0,\s*0\);\s*top\s*=\s*sizeof\(Rule\);\s*fix\s*=\s*0;\s*\}', body):
                problems.append('anchor not found: Rule() initialises head/body to (0,0), top = sizeof(Rule), fix = 0')
        m = re.search(r'RuleBuilder::RuleBuilder\(\)\s*:\s*mem_\((\d+)\)', r)
        if m:
            const('RB_INIT_SIZE', int(m.group(1)), 'RuleBuilder::RuleBuilder() : mem_(n)')
        else:
            problems.append('anchor not found: RuleBuilder() : mem_(n)')
    except OSError as e:
        problems.append(str(e))
    try:
        b = strip(rd(repo, 'potassco/basic_types.h'))
        sizes = {}
        for nm in ('Atom_t', 'Lit_t', 'Weight_t'):
            m = re.search(r'typedef\s+(\w+)\s+' + nm + r'\s*;', b)
            if m and m.group(1) in WIDTH:
                sizes[nm] = WIDTH[m.group(1)]
                const('RB_SZ_' + nm, WIDTH[m.group(1)], 'sizeof(%s) = sizeof(%s)' % (nm, m.group(1)))
            else:
                problems.append('anchor not found: typedef of ' + nm)
        m = re.search(r'struct\s+WeightLit_t\s*\{\s*Lit_t\s+lit\s*;\s*Weight_t\s+weight\s*;\s*\}', b)
        if m and 'Lit_t' in sizes and 'Weight_t' in sizes:
            const('RB_SZ_WeightLit_t', sizes['Lit_t'] + sizes['Weight_t'], 'struct WeightLit_t { Lit_t lit; Weight_t weight; }')
        else:
            problems.append('anchor not found: struct WeightLit_t { Lit_t lit; Weight_t weight; }')
        # the model stores one element per 4-byte cell (weight literal: two cells)
        if sizes and (set(sizes.values()) != {4}):
            problems.append('element sizes are not all 4 bytes: the word-cell memory model of C11 does not apply')
        m = re.search(r'Directive_t\s*,(.*?)\)\s*;', b, re.S)
        mm = re.search(r'\bMinimize\s*=\s*(\d+)', m.group(1)) if m else None
        if mm:
            const('RB_MINIMIZE', int(mm.group(1)), 'Directive_t::Minimize (stored in the 2-bit head type)')
        else:
            problems.append('anchor not found: Directive_t::Minimize')
    except OSError as e:
        problems.append(str(e))
    try:
        s = strip(rd(repo, 'src/match_basic_types.cpp'))
        m = re.search(r'void\s+MemoryRegion::grow\(std::size_t\s+n\)\s*\{(.*?)\n\}', s, re.S)
        if not m:
            problems.append('anchor not found: MemoryRegion::grow')
        else:
            g = m.group(1)
            if not re.search(r'if\s*\(\s*n\s*>\s*size\(\)\s*\)', g):
                problems.append('anchor not found: grow: if (n > size())')
            mm = re.search(r'nc\s*=\s*std::max\(\s*n\s*,\s*\(\s*size\(\)\s*\*\s*(\d+)\s*\)\s*>>\s*(\d+)\s*\)', g)
            if mm:
                const('RB_GROW_MUL', int(mm.group(1)), 'grow: nc = max(n, (size()*MUL) >> SHIFT)')
                const('RB_GROW_SHIFT', int(mm.group(2)), 'grow: nc = max(n, (size()*MUL) >> SHIFT)')
            else:
                problems.append('anchor not found: grow: nc = std::max(n, (size() * k) >> s)')
            if not re.search(r'std::realloc\(\s*beg_\s*,\s*nc\s*\)', g):
                problems.append('anchor not found: grow: realloc(beg_, nc)')
            mm = re.search(r'end_\s*=\s*static_cast<unsigned char\*>\(t\)\s*\+\s*(n|nc)\s*;', g)
            if mm:
                const('RB_GROW_SIZE_IS_REQUEST', 1 if mm.group(1) == 'n' else 0, 'grow: end_ = t + n (1) or t + nc (0)')
            else:
                problems.append('anchor not found: grow: end_ = t + n|nc')
    except OSError as e:
        problems.append(str(e))
    return '\n'.join(L) + '\n', C, problems


if __name__ == '__main__':
    import sys
    t, c, p = generate(sys.argv[1] if len(sys.argv) > 1 else '/repo')
    print(t)
    print(p)
