#!/usr/bin/env python3
"""Driver for the libpotassco verification checks (see DESIGN.md section 2).

  ./check Cnn [--tier quick|thorough] [--replay FILE]
  ./check --setup            build everything from files on disk
  ./check --baseline-off     build /repo WITHOUT the guard define and run its own test-suite
  ./check --all [--tier T]   run every registered property (development helper)

One run of a property:
  translate (gen_consts) -> prove (make Properties_Cnn.vo) -> extract -> build impl from /repo's
  working tree (sanitizers, hooks on) -> correspondence (model vs impl on the same cases) ->
  property oracle on the implementation -> decide -> evidence.
"""
import sys, os, json, time, hashlib, subprocess, importlib, re, random, shutil, fcntl, glob
from concurrent.futures import ThreadPoolExecutor

ROOT = os.path.dirname(os.path.dirname(os.path.abspath(__file__)))
REPO = os.environ.get('VERIF_REPO', '/repo')
BUILD = os.path.join(ROOT, 'build')
COQ_SRC = os.path.join(ROOT, 'coq')
if os.path.realpath(REPO) == '/repo':
    WORK = BUILD
    COQ = COQ_SRC
else:
    # a scratch tree gets its own copy of the Coq development (its generated constants differ)
    WORK = os.path.join(BUILD, 'alt', hashlib.sha1(os.path.realpath(REPO).encode()).hexdigest()[:10])
    COQ = os.path.join(WORK, 'coq')
CONSTS_JSON = os.path.join(WORK, 'consts.json')
os.environ['VERIF_CONSTS_JSON'] = CONSTS_JSON
COQ_WARN = ['-w', '-notation-overridden,-deprecated-hint-without-locality,-deprecated-instance-without-locality']
GUARD = 'POTASSCO_LIBPOTASSCO_VERIF'
sys.path.insert(0, ROOT)
sys.path.insert(0, os.path.join(ROOT, 'tools'))
import gen_consts  # noqa: E402

CXX = os.environ.get('VERIF_CXX', 'g++')
CXXFLAGS = ['-std=gnu++17', '-O1', '-g', '-fno-omit-frame-pointer',
            '-fsanitize=address,undefined', '-fno-sanitize-recover=all', '-D' + GUARD, '-w']
SAN_ENV = {'ASAN_OPTIONS': 'detect_leaks=1:abort_on_error=0:exitcode=77:allocator_may_return_null=1',
           'UBSAN_OPTIONS': 'halt_on_error=1:exitcode=78:print_stacktrace=0'}
FORBIDDEN = re.compile(r'\b(Admitted|admit|Axiom|Axioms|Parameter|Parameters|Conjecture|Conjectures|'
                       r'Admit\s+Obligations|bypass_check|give_up)\b|Unset\s+Guard|Unset\s+Positivity|'
                       r'Unset\s+Universe|type-in-type|impredicative-set')
THM = re.compile(r'^\s*(?:Local\s+|Global\s+|#\[[^\]]*\]\s*)*(Theorem|Lemma|Corollary|Example|Fact|Remark|Proposition)\s+([A-Za-z0-9_\']+)', re.M)


def log(*a):
    print('[check]', *a, file=sys.stderr, flush=True)


def sh(cmd, cwd=None, timeout=None, env=None, stdin=None):
    e = dict(os.environ)
    if env:
        e.update(env)
    p = subprocess.run(cmd, cwd=cwd, timeout=timeout, env=e, input=stdin,
                       stdout=subprocess.PIPE, stderr=subprocess.PIPE, text=True, errors='replace')
    return p.returncode, p.stdout, p.stderr


class Lock:
    def __init__(self, name):
        os.makedirs(BUILD, exist_ok=True)
        self.path = os.path.join(BUILD, '.' + name + '.lock')

    def __enter__(self):
        self.f = open(self.path, 'w')
        fcntl.flock(self.f, fcntl.LOCK_EX)

    def __exit__(self, *a):
        fcntl.flock(self.f, fcntl.LOCK_UN)
        self.f.close()


# ------------------------------------------------------------------------------------------------
# implementation build (from /repo's current working tree)
# ------------------------------------------------------------------------------------------------
def repo_files():
    fs = []
    for d in ('src', 'potassco', 'app'):
        for base, _, names in os.walk(os.path.join(REPO, d)):
            for n in names:
                if n.endswith(('.cpp', '.h', '.hpp', '.inl')):
                    fs.append(os.path.join(base, n))
    return sorted(fs)


def tree_hash():
    h = hashlib.sha1()
    for f in repo_files():
        h.update(f.encode())
        h.update(open(f, 'rb').read())
    return h.hexdigest()[:16]


def file_hash(*paths):
    h = hashlib.sha1()
    for p in paths:
        h.update(open(p, 'rb').read())
    return h.hexdigest()[:12]


def variant_key(defs):
    if not defs:
        return 'default'
    return '_'.join('%s-%s' % (k.replace('POTASSCO_VERIF_', ''), v) for k, v in sorted(defs.items()))


def prune_impl(keep):
    """Bound the disk used by cached builds: keep the 20 most recently used trees, never touch one used in the last 2 hours."""
    base = os.path.join(BUILD, 'impl')
    if not os.path.isdir(base):
        return
    now = time.time()
    ds = sorted((os.path.getmtime(os.path.join(base, d)), d) for d in os.listdir(base))
    for mt, d in ds[:-20]:
        if d != keep and now - mt > 7200:
            shutil.rmtree(os.path.join(base, d), ignore_errors=True)


def build_lib(defs=None, extra_flags=()):
    """Compile every src/*.cpp of /repo (current working tree) into a static library."""
    defs = defs or {}
    th = tree_hash()
    d = os.path.join(BUILD, 'impl', th, variant_key(defs) + ('' if not extra_flags else '_' + hashlib.sha1(' '.join(extra_flags).encode()).hexdigest()[:6]))
    lib = os.path.join(d, 'libpotassco.a')
    with Lock('impl'):
        if os.path.exists(lib):
            os.utime(os.path.join(BUILD, 'impl', th))
            return lib, None
        os.makedirs(d, exist_ok=True)
        prune_impl(th)
        srcs = sorted(glob.glob(os.path.join(REPO, 'src', '*.cpp')))
        dflags = ['-D%s=%s' % kv for kv in defs.items()]

        def cc(s):
            o = os.path.join(d, os.path.basename(s)[:-4] + '.o')
            rc, out, err = sh([CXX] + CXXFLAGS + list(extra_flags) + dflags + ['-I', REPO, '-c', s, '-o', o], timeout=600)
            return (rc, err, o)
        with ThreadPoolExecutor(16) as ex:
            res = list(ex.map(cc, srcs))
        bad = [r for r in res if r[0] != 0]
        if bad:
            return None, '\n'.join(r[1][-3000:] for r in bad)
        rc, out, err = sh(['ar', 'rcs', lib] + [r[2] for r in res])
        if rc != 0:
            return None, err
        return lib, None


def build_harness(name, defs=None, extra_srcs=()):
    lib, err = build_lib(defs)
    if lib is None:
        return None, err
    src = os.path.join(ROOT, 'harness', name + '.cpp')
    # further translation units of the harness (plugin HARNESS_EXTRA entries ending in .cpp), e.g. a second TU with its own internal-linkage types
    more = [os.path.join(ROOT, 'harness', x) for x in extra_srcs if x.endswith('.cpp')]
    hh = file_hash(src, *(more + sorted(glob.glob(os.path.join(ROOT, 'harness', '*.h')))))  # every shared header: a stale harness is worse than a rebuild
    exe = os.path.join(os.path.dirname(lib), '%s-%s' % (name, hh))
    with Lock('impl'):
        if os.path.exists(exe):
            return exe, None
        dflags = ['-D%s=%s' % kv for kv in (defs or {}).items()]
        rc, out, err = sh([CXX] + CXXFLAGS + dflags + ['-I', REPO, '-I', os.path.join(ROOT, 'harness'), src] + more + [lib, '-o', exe], timeout=900)
        if rc != 0:
            return None, err[-6000:]
        return exe, None


def build_lpconvert(defs=None):
    lib, err = build_lib(defs)
    if lib is None:
        return None, err
    exe = os.path.join(os.path.dirname(lib), 'lpconvert')
    with Lock('impl'):
        if os.path.exists(exe):
            return exe, None
        rc, out, err = sh([CXX] + CXXFLAGS + ['-I', REPO, os.path.join(REPO, 'app', 'lpconvert.cpp'), lib, '-o', exe], timeout=900)
        if rc != 0:
            return None, err[-6000:]
        return exe, None


# ------------------------------------------------------------------------------------------------
# Coq side
# ------------------------------------------------------------------------------------------------
def coq_prepare():
    """Regenerate Gen/Consts.v from /repo, _CoqProject and Makefile. Returns translator problems."""
    with Lock('coq'):
        return _coq_prepare()


def _coq_prepare():
    if COQ != COQ_SRC:
        os.makedirs(COQ, exist_ok=True)
        sh(['rsync', '-a', '--delete', '--exclude', 'Gen/', '--exclude', '.*.aux', '--exclude', '*.glob', COQ_SRC + '/', COQ + '/'])
    problems = gen_consts.generate(REPO, os.path.join(COQ, 'Gen', 'Consts.v'), CONSTS_JSON)
    vs = sorted(os.path.relpath(p, COQ) for p in glob.glob(os.path.join(COQ, '**', '*.v'), recursive=True))
    proj = '-Q . V\n-arg -w -arg -notation-overridden,-deprecated-hint-without-locality,-deprecated-instance-without-locality\n' + '\n'.join(vs) + '\n'
    pp = os.path.join(COQ, '_CoqProject')
    old = open(pp).read() if os.path.exists(pp) else ''
    if old != proj or not os.path.exists(os.path.join(COQ, 'Makefile')):
        open(pp, 'w').write(proj)
        rc, out, err = sh(['coq_makefile', '-f', '_CoqProject', '-o', 'Makefile'], cwd=COQ)
        if rc != 0:
            problems.append('coq_makefile failed: ' + err[-500:])
    return problems


def strip_comments(s):
    out, depth, i = [], 0, 0
    while i < len(s):
        if s.startswith('(*', i):
            depth += 1
            i += 2
        elif s.startswith('*)', i) and depth:
            depth -= 1
            i += 2
        else:
            if not depth:
                out.append(s[i])
            i += 1
    return ''.join(out)


class FileLock:
    def __init__(self, path):
        self.path = path + '.lock'

    def __enter__(self):
        self.f = open(self.path, 'w')
        fcntl.flock(self.f, fcntl.LOCK_EX)

    def __exit__(self, *a):
        fcntl.flock(self.f, fcntl.LOCK_UN)
        self.f.close()


def coq_imports(f):
    """Direct imports (our own files) of coq/<f>."""
    txt = strip_comments(open(os.path.join(COQ, f)).read())
    deps = []
    for m in re.finditer(r'(?:From\s+(\S+)\s+)?Require\s+(?:Import\s+|Export\s+)?(.*?)\.(?=\s|$)', txt, re.S):
        frm = m.group(1)
        for name in m.group(2).split():
            cand = None
            if name.startswith('V.'):
                cand = name[2:].replace('.', '/') + '.v'
            elif frm == 'V' or (frm or '').startswith('V.'):
                pref = frm[2:].replace('.', '/') + '/' if frm.startswith('V.') else ''
                cand = pref + name.replace('.', '/') + '.v'
            if cand and os.path.exists(os.path.join(COQ, cand)) and cand not in deps:
                deps.append(cand)
    return deps


def coq_closure(target_v):
    """Transitive import closure (our own files only) of coq/<target_v>, dependencies first."""
    order, state = [], {}

    def visit(f):
        if state.get(f) == 2 or not os.path.exists(os.path.join(COQ, f)):
            return
        if state.get(f) == 1:
            return  # cycle: coqc will complain
        state[f] = 1
        for d in coq_imports(f):
            visit(d)
        state[f] = 2
        order.append(f)
    visit(target_v)
    return order


def coq_build(target_v, force=(), per_file_timeout=1200):
    """Compile the closure of target_v with coqc, one file at a time, each under its own lock and timeout
    (full .vo builds; never -vos).  Returns {file: (ok, stdout, stderr)}."""
    res = {}
    for f in coq_closure(target_v):
        deps = coq_imports(f)
        if any(not res.get(d, (True,))[0] for d in deps):
            res[f] = (False, '', 'dependency failed')
            continue
        v = os.path.join(COQ, f)
        vo = v[:-2] + '.vo'
        with FileLock(os.path.join(COQ, '.' + f.replace('/', '_'))):
            def mt(p):
                return os.path.getmtime(p) if os.path.exists(p) else -1
            need = f in force or mt(vo) < mt(v) or any(mt(os.path.join(COQ, d[:-2] + '.vo')) > mt(vo) for d in deps)
            if not need:
                res[f] = (True, '', '')
                continue
            if os.path.exists(vo):
                os.remove(vo)
            try:
                rc, out, err = sh(['timeout', str(per_file_timeout), 'coqc', '-q'] + COQ_WARN + ['-Q', '.', 'V', f], cwd=COQ, timeout=per_file_timeout + 30)
            except subprocess.TimeoutExpired:
                rc, out, err = 124, '', 'coqc timed out'
            if rc == 124:
                err = 'coqc timed out after %ds: %s' % (per_file_timeout, f)
            if rc != 0 and os.path.exists(vo):
                os.remove(vo)
            res[f] = (rc == 0, out, err)
    return res



def prove(pid, allowed_axioms=(), tier='quick'):
    target = 'Properties_%s' % pid
    res = {'ok': False, 'obligations': 0, 'discharged': 0, 'errors': [], 'assumptions': {}, 'files': [], 'cmd': ''}
    files = coq_closure(target + '.v')
    res['files'] = files
    thms = {}
    for f in files:
        txt = strip_comments(open(os.path.join(COQ, f)).read())
        for m in FORBIDDEN.finditer(txt):
            res['errors'].append('forbidden construct %r in %s' % (m.group(0), f))
        thms[f] = [m.group(2) for m in THM.finditer(txt)]
    res['obligations'] = sum(len(v) for v in thms.values())
    res['cmd'] = ('cd coq && for f in <import closure of %s.v, dependencies first>; do timeout 1200 coqc -q -Q . V $f; done   '
                  '(tools/check.py coq_build; equivalent: coq_makefile -f _CoqProject -o Makefile && make %s.vo)' % (target, target))
    br = coq_build(target + '.v', force=(target + '.v',))
    out = br.get(target + '.v', (False, '', ''))[1]
    built = 0
    rc = 0
    for f in files:
        ok, o, e = br.get(f, (False, '', 'not built'))
        if ok:
            built += len(thms[f])
        else:
            rc = 1
            msg = ' '.join(e.split())[-500:]
            res['errors'].append('not compiled: %s (obligations: %s): %s' % (f, ', '.join(thms[f][:12]), msg))
    res['discharged'] = built
    # Print Assumptions output
    cur = None
    for line in out.splitlines():
        if line.startswith('Closed under the global context'):
            res['assumptions'].setdefault('closed', 0)
            res['assumptions']['closed'] += 1
        elif line.startswith('Axioms:'):
            cur = 'axioms'
        elif cur == 'axioms':
            m = re.match(r'^([A-Za-z_][A-Za-z0-9_.\']*)\s*:', line)
            if m:
                ax = m.group(1)
                res['assumptions'].setdefault('axioms', [])
                if ax not in res['assumptions']['axioms']:
                    res['assumptions']['axioms'].append(ax)
                if ax not in allowed_axioms:
                    res['errors'].append('theorem depends on axiom not in the allowed list: ' + ax)
    nprint = len(re.findall(r'Print\s+Assumptions', strip_comments(open(os.path.join(COQ, target + '.v')).read())))
    res['print_assumptions'] = nprint
    if tier == 'thorough' and rc == 0:
        # independent re-check of the compiled files and everything they depend on
        try:
            crc, cout, cerr = sh(['timeout', '1800', 'coqchk', '-o', '-silent', '-Q', '.', 'V', 'V.' + target], cwd=COQ, timeout=1900)
        except subprocess.TimeoutExpired:
            crc, cout, cerr = 124, '', 'coqchk timed out'
        summ = (cout + cerr)
        i = summ.find('CONTEXT SUMMARY')
        res['coqchk'] = {'rc': crc, 'summary': ' '.join(summ[i:].split())[:1500] if i >= 0 else ' '.join(summ.split())[-600:]}
        if crc != 0:
            res['errors'].append('coqchk failed: ' + res['coqchk']['summary'][-300:])
        else:
            m = re.search(r'\* Axioms:(.*?)\* Constants', summ, re.S)
            axs = [] if not m or '<none>' in m.group(1) else [a.strip() for a in m.group(1).split('\n') if a.strip()]
            res['coqchk']['axioms'] = axs
            for a in axs:
                if not any(a.endswith(x) or x in a for x in allowed_axioms):
                    res['errors'].append('coqchk lists an axiom outside the allowed list: ' + a)
    res['ok'] = (rc == 0 and not res['errors'] and res['discharged'] == res['obligations'] and res['obligations'] > 0)
    return res


def extract(pid):
    d = os.path.join(WORK, 'ocaml', pid)
    os.makedirs(d, exist_ok=True)
    src = os.path.join(COQ, 'Extract_%s.v' % pid)
    exe = os.path.join(d, 'model_driver')
    # model files must be compiled (proof files may be broken; extraction only needs the model)
    deps = [f for f in coq_closure('Extract_%s.v' % pid) if not f.startswith('Extract_')]
    br = {}
    for f in coq_imports('Extract_%s.v' % pid):
        br.update(coq_build(f))
    bad = [f for f, r in br.items() if not r[0]]
    if bad:
        return None, 'model does not compile: %s: %s' % (bad[0], br[bad[0]][2][-1500:])
    with Lock('ocaml-' + pid):
        stamp = file_hash(src, os.path.join(ROOT, 'ocaml', 'driver.ml'), *[os.path.join(COQ, f) for f in deps])
        sp = os.path.join(d, 'stamp')
        if os.path.exists(exe) and os.path.exists(sp) and open(sp).read() == stamp:
            return exe, None
        rc, out, err = sh(['timeout', '600', 'coqc', '-Q', COQ, 'V', '-o', os.path.join(d, 'Extract_%s.vo' % pid), src], cwd=d, timeout=700)
        if rc != 0:
            return None, 'extraction failed: ' + err[-1500:]
        shutil.copy(os.path.join(ROOT, 'ocaml', 'driver.ml'), os.path.join(d, 'driver.ml'))
        rc, out, err = sh(['ocamlfind', 'ocamlopt', '-package', 'zarith', '-linkpkg', '-O3', '-w', '-a', 'model.mli', 'model.ml', 'driver.ml', '-o', exe], cwd=d, timeout=600)
        if rc != 0:
            rc, out, err = sh(['ocamlfind', 'ocamlopt', '-package', 'zarith', '-linkpkg', '-w', '-a', 'model.mli', 'model.ml', 'driver.ml', '-o', exe], cwd=d, timeout=600)
        if rc != 0:
            return None, 'ocaml build failed: ' + err[-1500:]
        open(sp, 'w').write(stamp)
        return exe, None


def parse_coq_lists(out):
    """Parse the `= [[..];[..]] : list (list Z)` output of Eval vm_compute."""
    m = re.search(r'=\s*(\[.*\])\s*:\s*list', out, re.S)
    if not m:
        return None
    s = re.sub(r'%[A-Za-z]+', '', m.group(1))
    s = re.sub(r'\s+', '', s)
    res, cur, num = [], None, ''
    depth = 0
    for ch in s:
        if ch == '[':
            depth += 1
            if depth == 2:
                cur = []
        elif ch in ';]':
            if num and cur is not None:
                cur.append(int(num))
            num = ''
            if ch == ']':
                if depth == 2:
                    res.append(cur)
                    cur = None
                depth -= 1
        elif ch in '-0123456789':
            num += ch
        elif ch in '()':
            pass
    return res


def coq_eval(pid, module, fn, cases):
    d = os.path.join(WORK, 'xcheck', pid)
    os.makedirs(d, exist_ok=True)
    body = ';\n '.join('[' + '; '.join(('(%d)' % x) for x in c) + ']' for c in cases)
    v = ('Require Import ZArith List. Import ListNotations. Require Import %s.\nLocal Open Scope Z_scope.\n'
         'Definition cases : list (list Z) := [\n %s].\nEval vm_compute in (map %s cases).\n' % (module, body, fn))
    open(os.path.join(d, 'cases.v'), 'w').write(v)
    with Lock('xcheck-' + pid):
        rc, out, err = sh(['timeout', '600', 'coqc', '-Q', COQ, 'V', 'cases.v'], cwd=d, timeout=700)
    if rc != 0:
        return None, err[-800:]
    return parse_coq_lists(out), None


# ------------------------------------------------------------------------------------------------
# running cases
# ------------------------------------------------------------------------------------------------
def fmt_case(c):
    return ' '.join(str(x) for x in c)


def run_model(exe, cases):
    rc, out, err = sh([exe], stdin='\n'.join(fmt_case(c) for c in cases) + '\n', timeout=3600)
    if rc != 0:
        raise RuntimeError('model driver failed: ' + err[-500:])
    lines = out.splitlines()
    if len(lines) != len(cases):
        raise RuntimeError('model driver printed %d lines for %d cases' % (len(lines), len(cases)))
    return [[int(x) for x in l.split()] for l in lines]


def run_impl(exe, cases, env=None, per_case_timeout=20):
    """Run the harness; a crash / sanitizer report on a case yields the observation ['CRASH', summary]."""
    res = []
    i = 0
    e = dict(SAN_ENV)
    if env:
        e.update(env)
    while i < len(cases):
        batch = cases[i:]
        try:
            rc, out, err = sh([exe], stdin='\n'.join(fmt_case(c) for c in batch) + '\n', env=e,
                              timeout=per_case_timeout + 0.05 * len(batch))
        except subprocess.TimeoutExpired as te:
            out = (te.stdout or b'').decode(errors='replace') if isinstance(te.stdout, bytes) else (te.stdout or '')
            rc, err = -9, 'TIMEOUT'
        lines = out.splitlines()
        good = []
        for l in lines[:len(batch)]:
            try:
                good.append([int(x) for x in l.split()])
            except ValueError:
                break
        res.extend(good)
        i += len(good)
        if i < len(cases) and err == 'TIMEOUT':
            # the BATCH ran out of time (slow cases, or a loaded machine): that says nothing about the case it happened to be working on.
            # Decide that case alone, with a generous limit; only a case that does not finish on its own is reported as TIMEOUT.
            # (false alarm of the third full thorough run: an ordinary 13-op case was blamed while 20 other jobs were running)
            try:
                rc1, out1, err1 = sh([exe], stdin=fmt_case(cases[i]) + '\n', env=e, timeout=max(120, 6 * per_case_timeout))
                l1 = out1.splitlines()
                ok1 = False
                if l1:
                    try:
                        o1 = [int(x) for x in l1[0].split()]
                        ok1 = True
                    except ValueError:
                        ok1 = False
                if ok1 and rc1 == 0:
                    res.append(o1)
                elif ok1:
                    res.append(['CRASH', san_summary(err1, rc1) + ' (at exit)'])
                else:
                    res.append(['CRASH', san_summary(err1, rc1)])
            except subprocess.TimeoutExpired:
                res.append(['CRASH', 'TIMEOUT'])
            i += 1
        elif i < len(cases) and (rc != 0 or len(good) < len(batch)):
            summ = san_summary(err, rc)
            res.append(['CRASH', summ])
            i += 1
        elif rc != 0 and good and len(good) == len(batch):
            # every line was printed but the exit status is bad: a report at exit (leak); blame the last case
            res[-1] = ['CRASH', san_summary(err, rc) + ' (at exit)']
    return res



def san_summary(err, rc):
    m = re.search(r'SUMMARY: (\w+): ([^\n]*)', err)
    if m:
        s = m.group(1) + ': ' + re.sub(r'0x[0-9a-f]+', '', m.group(2))
        s = re.sub(r'/[^ ]*/(repo|verif)/', '', s)
        return s.strip()[:200]
    m = re.search(r'runtime error: ([^\n]*)', err)
    if m:
        loc = re.search(r'([A-Za-z_]+\.(?:cpp|h)):(\d+)', err)
        return 'UBSan: ' + m.group(1)[:120] + (' @' + loc.group(1) if loc else '')
    return 'exit %s: %s' % (rc, ' '.join(err.split())[-160:])


# ------------------------------------------------------------------------------------------------
# known findings
# ------------------------------------------------------------------------------------------------
def load_known(pid):
    known = {}
    p = os.path.join(ROOT, 'KNOWN_FINDINGS.txt')
    if os.path.exists(p):
        for line in open(p):
            line = line.strip()
            m = re.match(r'known:\s+property=(\S+)\s+id=(\S+)\s+match=(\S+)\s*(.*)', line)
            if m and m.group(1) == pid:
                known[m.group(3)] = (m.group(2), m.group(4))
    return known


# ------------------------------------------------------------------------------------------------
# one property run
# ------------------------------------------------------------------------------------------------
def load_corpus(pid):
    cs = []
    d = os.path.join(ROOT, 'corpus', pid)
    if os.path.isdir(d):
        for f in sorted(os.listdir(d)):
            for line in open(os.path.join(d, f)):
                line = line.split('#')[0].strip()
                if line:
                    cs.append([int(x) for x in line.split()])
    return cs


def write_replay(pid, obj):
    d = os.path.join(BUILD, 'replay')
    os.makedirs(d, exist_ok=True)
    h = hashlib.sha1(json.dumps(obj, sort_keys=True, default=str).encode()).hexdigest()[:10]
    p = os.path.join(d, '%s-%s.json' % (pid, h))
    json.dump(obj, open(p, 'w'), indent=1, default=str)
    return p


def run_cases(P, exes, cases):
    """Run implementation on cases, honouring the plugin's variants. Returns list of observations."""
    out = [None] * len(cases)
    groups = {}
    for i, c in enumerate(cases):
        groups.setdefault(P.variant_of(c) if hasattr(P, 'variant_of') else 'default', []).append(i)

    def one(k):
        idx = groups[k]
        obs = run_impl(exes[k], [cases[i] for i in idx], env=getattr(P, 'HARNESS_ENV', None))
        return k, idx, obs
    with ThreadPoolExecutor(8) as ex:
        for k, idx, obs in ex.map(one, list(groups)):
            for i, o in zip(idx, obs):
                out[i] = o
    return out


def build_exes(P):
    exes = {}
    if getattr(P, 'NEEDS_LPCONVERT', False):
        lp, lerr = build_lpconvert()
        if lp is None:
            return {}, ['lpconvert: %s' % lerr]
        os.environ['VERIF_LPCONVERT'] = lp
    variants = getattr(P, 'VARIANTS', {'default': {}})
    errs = []

    def b(kv):
        k, defs = kv
        return k, build_harness(P.HARNESS, defs, getattr(P, 'HARNESS_EXTRA', ()))
    with ThreadPoolExecutor(4) as ex:
        for k, (exe, err) in ex.map(b, list(variants.items())):
            if exe is None:
                errs.append('%s: %s' % (k, err))
            else:
                exes[k] = exe
    return exes, errs


def check(pid, tier, replay=None):
    t0 = time.time()
    seed = int(os.environ.get('VERIF_SEED', '1'))
    P = importlib.import_module('props.' + pid)
    known = load_known(pid)
    notes = []

    # 1. translate + 2. prove
    tproblems = coq_prepare()
    pr = prove(pid, getattr(P, 'ALLOWED_AXIOMS', ()), tier)
    # a translator problem counts for this property only if the generated file it belongs to is in the property's import closure
    def relevant(p):
        m = re.match(r'(C\d+): ', p)
        if m:
            return m.group(1) == pid or ('Gen/Consts_%s.v' % m.group(1)) in pr['files']
        return 'Gen/Consts.v' in pr['files']
    tproblems = [p for p in tproblems if relevant(p)]
    obligations_broken = list(tproblems) + pr['errors']
    log('%s proof: %d/%d obligations, ok=%s' % (pid, pr['discharged'], pr['obligations'], pr['ok']))

    # 3. extract
    mexe, merr = extract(pid)
    if mexe is None:
        obligations_broken.append(merr)

    # 4. build impl
    exes, berrs = build_exes(P)
    if berrs:
        # the tree does not compile: nothing can be said about behaviour
        p = write_replay(pid, {'kind': 'build', 'errors': berrs})
        finish(pid, tier, seed, t0, pr, P, [], [], [], 1, notes + ['implementation does not build'], [], {})
        print('VIOLATION property=%s replay=%s no-failing-input-found' % (pid, p))
        return 1

    # 5. cases
    if replay:
        rj = json.load(open(replay))
        cases = [rj['case']] if 'case' in rj else [c for c in rj.get('cases', [])]
        metas = [{'kind': 'replay'}] * len(cases)
    else:
        corpus = load_corpus(pid)
        gen = P.gen(seed, tier)
        cases = corpus + [c for c, _ in gen]
        metas = [{'kind': 'corpus'}] * len(corpus) + [m for _, m in gen]
    impl_obs = run_cases(P, exes, cases)
    model_obs = run_model(mexe, cases) if mexe else [None] * len(cases)

    disagreements = []
    failures = []   # (index, [signatures])
    nontrivial = set()
    for i, c in enumerate(cases):
        io, mo = impl_obs[i], model_obs[i]
        crashed = bool(io) and io[0] == 'CRASH'
        if crashed:
            cs = crash_signature(P, c, io[1])
            if cs:
                failures.append((i, [cs]))
        else:
            sigs = P.oracle(c, io)
            if sigs:
                failures.append((i, sigs))
            if P.nontrivial(c, io):
                nontrivial.add(tuple(c))
        if mo is not None and not crashed and io != mo:
            if hasattr(P, 'obs_equal') and P.obs_equal(c, io, mo):
                continue
            disagreements.append(i)

    # vm_compute cross-check of a sample (keeps extraction honest)
    xs = []
    if mexe and cases:
        rnd = random.Random(seed)
        small = [i for i, c in enumerate(cases) if len(c) <= 400]
        sample = rnd.sample(small, min(len(small), 12 if tier == 'quick' else 40))
        vals, xerr = coq_eval(pid, P.MODEL_MODULE, getattr(P, 'RUN', 'run_case'), [cases[i] for i in sample])
        if vals is None:
            obligations_broken.append('vm_compute cross-check failed to run: %s' % xerr)
        else:
            for i, v in zip(sample, vals):
                if v != model_obs[i]:
                    obligations_broken.append('extracted model and vm_compute differ on case %s' % fmt_case(cases[i]))
            xs = sample

    if replay:
        for i, c in enumerate(cases):
            print('case     :', fmt_case(c))
            print('describe :', P.describe(c))
            print('impl     :', impl_obs[i])
            print('model    :', model_obs[i])
            print('oracle   :', [s for j, s in failures if j == i])
        return 1 if (failures or disagreements) else 0

    # 6. decide
    unknown = []
    seen_known = {}
    for i, sigs in failures:
        for s in sigs:
            if s in known:
                seen_known.setdefault(s, i)
            else:
                unknown.append((i, s))
    for s, i in seen_known.items():
        print('KNOWN-FINDING: property=%s %s: %s [e.g. %s]' % (pid, known[s][0], known[s][1], P.describe(cases[i])))
    # a disagreement that coincides with a known finding is explained by it
    failing_idx = set(i for i, _ in failures)
    unexplained = [i for i in disagreements if i not in failing_idx]

    status = 0
    if unknown:
        i, s = min(unknown, key=lambda t: len(cases[t[0]]))
        case = cases[i]
        if hasattr(P, 'shrink'):
            case = shrink(P, exes, case, s)
        p = write_replay(pid, {'kind': 'input', 'property': pid, 'signature': s, 'case': case,
                               'describe': P.describe(case), 'impl_observation': run_cases(P, exes, [case])[0],
                               'seed': seed, 'replay_cmd': './check %s --replay <this file>' % pid,
                               'other_failures': len(unknown) - 1})
        print('VIOLATION property=%s replay=%s' % (pid, p))
        status = 1
    elif obligations_broken or unexplained:
        # search harder for a concrete failing input before giving up
        found = None
        if not replay:
            found = search(P, exes, known, seed, cases, unexplained)
        if found:
            case, s = found
            p = write_replay(pid, {'kind': 'input', 'property': pid, 'signature': s, 'case': case,
                                   'describe': P.describe(case), 'impl_observation': run_cases(P, exes, [case])[0],
                                   'seed': seed, 'broken': obligations_broken[:5]})
            print('VIOLATION property=%s replay=%s' % (pid, p))
        else:
            obj = {'property': pid, 'seed': seed}
            if obligations_broken:
                obj.update({'kind': 'obligation', 'broken': obligations_broken[:10]})
            if unexplained:
                i = min(unexplained, key=lambda j: len(cases[j]))
                obj.update({'kind': obj.get('kind', 'correspondence'), 'case': cases[i], 'describe': P.describe(cases[i]),
                            'model_observation': model_obs[i], 'impl_observation': impl_obs[i],
                            'disagreements': len(unexplained)})
            p = write_replay(pid, obj)
            print('VIOLATION property=%s replay=%s no-failing-input-found' % (pid, p))
        status = 1
    finish(pid, tier, seed, t0, pr, P, cases, metas, impl_obs, status, notes, sorted(seen_known), {
        'disagreements': len(disagreements), 'unexplained_disagreements': len(unexplained),
        'nontrivial': len(nontrivial), 'xcheck': len(xs), 'failures': len(failures),
        'obligations_broken': obligations_broken[:10]})
    return status


def crash_signature(P, case, summary):
    if hasattr(P, 'crash_sig'):
        return P.crash_sig(case, summary)
    return 'crash:' + re.sub(r'\s+', '_', summary)


def search(P, exes, known, seed, cases, unexplained):
    """Look for a concrete input on which the property itself fails on the implementation."""
    budget = getattr(P, 'SEARCH_ROUNDS', 3)
    for r in range(budget):
        extra = []
        if hasattr(P, 'mutate'):
            for i in unexplained[:20]:
                extra += P.mutate(cases[i], random.Random(seed * 1000 + r))
        extra += [c for c, _ in P.gen(seed * 7919 + r + 1, 'search')]
        obs = run_cases(P, exes, extra)
        for c, o in zip(extra, obs):
            if o and o[0] == 'CRASH':
                s = crash_signature(P, c, o[1])
                if s and s not in known:
                    return c, s
                continue
            for s in P.oracle(c, o):
                if s not in known:
                    return c, s
    return None


def shrink(P, exes, case, sig):
    def fails(c):
        o = run_cases(P, exes, [c])[0]
        if o and o[0] == 'CRASH':
            return crash_signature(P, c, o[1]) == sig
        return sig in P.oracle(c, o)
    try:
        return P.shrink(case, fails)
    except Exception as e:  # shrinking is best effort
        log('shrink failed:', e)
        return case


def finish(pid, tier, seed, t0, pr, P, cases, metas, impl_obs, status, notes, known_seen, stats):
    dist = {}
    for m in metas:
        dist[m.get('kind', '?')] = dist.get(m.get('kind', '?'), 0) + 1
    sizes = sorted(len(c) for c in cases) or [0]
    samples = []
    rnd = random.Random(seed)
    for i in rnd.sample(range(len(cases)), min(4, len(cases))):
        samples.append({'case': fmt_case(cases[i])[:600], 'describe': str(P.describe(cases[i]))[:600],
                        'impl_observation': fmt_case(impl_obs[i])[:400] if impl_obs[i] else None})
    ev = {
        'property_id': pid, 'tier': tier if tier in ('quick', 'thorough') else 'quick', 'seed': seed, 'level': 'proof',
        'coverage': {
            'obligations': pr['obligations'], 'discharged': pr['discharged'],
            'checker_cmd': pr['cmd'],
            'trusted_base': getattr(P, 'TRUSTED_BASE', []) + COMMON_TB,
            'proof_files': pr['files'],
            'print_assumptions': pr['assumptions'],
            'coqchk': pr.get('coqchk'),
            'property_theorems_with_print_assumptions': pr.get('print_assumptions', 0),
            'evaluations': len(cases), 'distinct_nontrivial': stats.get('nontrivial', 0),
            'rule': getattr(P, 'RULE', ''),
            'samples': samples,
            'input_distribution': {'by_kind': dist, 'case_len_min_med_max': [sizes[0], sizes[len(sizes) // 2], sizes[-1]]},
            'disagreements_checked': len(cases), 'disagreements': stats.get('disagreements', 0),
            'vm_compute_crosschecked': stats.get('xcheck', 0),
            'oracle_failures': stats.get('failures', 0),
            'known_findings_seen': known_seen,
            'obligations_broken': stats.get('obligations_broken', []),
            'exhaustive': bool(getattr(P, 'EXHAUSTIVE', {}).get(tier, False)),
            'exhaustive_space': getattr(P, 'EXHAUSTIVE_SPACE', None),
            'impl_tree_hash': tree_hash(),
            'notes': notes,
        },
        'assumptions': getattr(P, 'ASSUMPTIONS', []),
        'wall_s': round(time.time() - t0, 2),
        'violations': 1 if status else 0,
    }
    # runs against a scratch tree (VERIF_REPO) must not overwrite the evidence of /repo itself
    evdir = os.path.join(ROOT, 'evidence') if WORK == BUILD else os.path.join(WORK, 'evidence')
    os.makedirs(evdir, exist_ok=True)
    json.dump(ev, open(os.path.join(evdir, pid + '.json'), 'w'), indent=1)
    log('%s done: status=%d cases=%d wall=%.1fs %s' % (pid, status, len(cases), time.time() - t0, stats))


COMMON_TB = [
    'Coq 8.16.1 kernel incl. vm_compute (no native_compute)',
    'tools/gen_consts.py (translator of constants/tables from /repo sources into coq/Gen/Consts.v)',
    'Coq extraction with ExtrOcamlBasic only (no Extract Constant of ours) + OCaml 4.13.1 + ocaml/driver.ml; cross-checked per run against vm_compute on a sample',
    'correspondence harness (harness/*.cpp, tools/check.py, props/*.py) and g++ 12 with ASan/UBSan/LSan',
]


def impl_only(pid, tier):
    """Development helper: run generator + implementation + oracle only and summarise failures by signature."""
    seed = int(os.environ.get('VERIF_SEED', '1'))
    P = importlib.import_module('props.' + pid)
    coq_prepare()
    exes, berrs = build_exes(P)
    if berrs:
        print('BUILD FAILED', berrs)
        return 1
    gen = P.gen(seed, tier)
    cases = load_corpus(pid) + [c for c, _ in gen]
    t0 = time.time()
    obs = run_cases(P, exes, cases)
    by = {}
    for c, o in zip(cases, obs):
        sigs = [x for x in [crash_signature(P, c, o[1])] if x] if (o and o[0] == 'CRASH') else P.oracle(c, o)
        for sg in sigs:
            by.setdefault(sg, []).append(c)
    print('%d cases in %.1fs; %d distinct failure signatures' % (len(cases), time.time() - t0, len(by)))
    for sg, cs in sorted(by.items(), key=lambda kv: -len(kv[1])):
        c = min(cs, key=len)
        print('%5d  %s\n       e.g. %s' % (len(cs), sg, P.describe(c)[:300]))
    return 1 if by else 0


def all_pids():
    ps = sorted(f[:-3] for f in os.listdir(os.path.join(ROOT, 'props')) if re.match(r'C\d+\.py$', f))
    return [p for p in ps if getattr(importlib.import_module('props.' + p), 'READY', False)]


def setup():
    probs = coq_prepare()
    if probs:
        log('translator problems:', probs)
    ok = True
    targets = sorted(os.path.basename(p) for p in glob.glob(os.path.join(COQ, 'Properties_*.v')))

    def bt(t):
        return t, coq_build(t)
    with ThreadPoolExecutor(8) as ex:
        for t, br in ex.map(bt, targets):
            bad = [f for f, r in br.items() if not r[0]]
            log('coq build %s: %s' % (t, 'ok' if not bad else 'FAILED ' + ', '.join(bad)))
            if bad and re.match(r'Properties_(C\d+)\.v', t).group(1) in all_pids():
                ok = False
    for pid in all_pids():
        exe, e = extract(pid)
        if exe is None:
            log('extract %s failed: %s' % (pid, e))
            ok = False
        P = importlib.import_module('props.' + pid)
        exes, errs = build_exes(P)
        if errs:
            log('harness build %s failed: %s' % (pid, errs))
            ok = False
    return 0 if ok else 1


def baseline_off():
    d = os.path.join('/tmp', 'verif-baseline-%d' % os.getpid())
    try:
        rc, out, err = sh(['cmake', '-G', 'Ninja', '-S', REPO, '-B', d, '-DLIB_POTASSCO_BUILD_TESTS=ON',
                           '-DCMAKE_BUILD_TYPE=RelWithDebInfo', '-DCMAKE_CXX_FLAGS=-Wno-error'], timeout=600)
        if rc == 0:
            rc, out, err = sh(['cmake', '--build', d, '-j16'], timeout=1800)
        if rc != 0:
            print(out[-2000:], err[-2000:])
            return 1
        rc, out, err = sh(['ctest', '--test-dir', d, '-j8', '--timeout', '900'], timeout=3600)
        print(out[-1500:])
        return rc
    finally:
        shutil.rmtree(d, ignore_errors=True)


def main(argv):
    if '--setup' in argv:
        return setup()
    if '--baseline-off' in argv:
        return baseline_off()
    if '--impl-only' in argv:
        a = [x for x in argv if x != '--impl-only']
        t = a[a.index('--tier') + 1] if '--tier' in a else 'quick'
        return impl_only(a[0], t)
    tier = os.environ.get('VERIF_TIER', 'quick')
    replay = None
    pids = []
    i = 0
    while i < len(argv):
        a = argv[i]
        if a == '--tier':
            tier = argv[i + 1]
            i += 1
        elif a == '--replay':
            replay = argv[i + 1]
            i += 1
        elif a == '--all':
            pids = all_pids()
        else:
            pids.append(a)
        i += 1
    rc = 0
    for pid in pids:
        rc |= check(pid, tier, replay)
    return rc


if __name__ == '__main__':
    sys.exit(main(sys.argv[1:]))
