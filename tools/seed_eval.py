#!/usr/bin/env python3
"""Evaluate a seeded breaking change: confirm the sub-agent's claims, run our check against it, file it under /verif/seeded/.
usage: tools/seed_eval.py PID [name]     (worktree /tmp/seed-PID[-name], deliverables /tmp/seed-PID[-name]-out)"""
import sys, os, json, subprocess, shutil, re, glob, time
ROOT = os.path.dirname(os.path.dirname(os.path.abspath(__file__)))
pid = sys.argv[1]
name = sys.argv[2] if len(sys.argv) > 2 else ''
tag = pid + ('-' + name if name else '')
wt, out = '/tmp/seed-' + tag, '/tmp/seed-' + tag + '-out'


def sh(cmd, cwd=None, timeout=3600, env=None):
    e = dict(os.environ); e.update(env or {})
    p = subprocess.run(cmd, shell=True, cwd=cwd, stdout=subprocess.PIPE, stderr=subprocess.STDOUT, text=True, timeout=timeout, env=e, errors='replace')
    return p.returncode, p.stdout


res = {'ran': []}
patch = os.path.join(out, 'patch.diff')
# make sure the worktree holds exactly the patch (a patch written against an older base is merged three-way: later `fix:` commits may touch
# neighbouring lines)
def restore():
    sh('git reset -q --hard HEAD', cwd=wt)


def apply_patch():
    rc, o = sh('git apply %s' % patch, cwd=wt)
    if rc != 0:
        rc, o = sh('git apply --3way %s && git reset -q' % patch, cwd=wt)
        res['patch_applied_three_way'] = rc == 0
    if rc != 0:
        # the hunks collide with a later `fix:` commit: use the hand-rebased form kept beside the original (same change, new context)
        sh('git reset -q --hard HEAD', cwd=wt)
        for rb in sorted(glob.glob(os.path.join(out, 'rebased-on-*.diff'))):
            rc, o = sh('git apply %s' % rb, cwd=wt)
            if rc == 0:
                res['patch_applied_rebased'] = os.path.basename(rb)
                break
    return rc == 0


restore()
res['patch_applies'] = apply_patch()
rc, o = sh('cmake -G Ninja -S . -B _build -DLIB_POTASSCO_BUILD_TESTS=ON -DCMAKE_BUILD_TYPE=RelWithDebInfo >/dev/null && cmake --build _build >/dev/null 2>&1 && ctest --test-dir _build 2>&1 | tail -3', cwd=wt)
res['tests_pass_with_change'] = (rc == 0 and '100% tests passed' in o)
res['ran'].append('cmake --build + ctest in the worktree with the change: ' + ('pass' if res['tests_pass_with_change'] else 'FAIL'))
rc, o = sh('sh demo.sh', cwd=out)
res['demo_fails_with_change'] = rc != 0
restore()
rc, o = sh('sh demo.sh', cwd=out)
res['demo_passes_without_change'] = rc == 0
apply_patch()
res['ran'].append('demo.sh with change: %s; without: %s' % ('fails' if res['demo_fails_with_change'] else 'PASSES', 'passes' if res['demo_passes_without_change'] else 'FAILS'))
t0 = time.time()
rc, o = sh('./check %s --tier quick' % pid, cwd=ROOT, env={'VERIF_REPO': wt})
viol = [l for l in o.splitlines() if l.startswith('VIOLATION')]
res['check_exit'] = rc
res['check_violation_line'] = viol[0] if viol else None
res['check_wall_s'] = round(time.time() - t0, 1)
detail = None
if viol:
    m = re.search(r'replay=(\S+)', viol[0])
    if m and os.path.exists(m.group(1)):
        r = json.load(open(m.group(1)))
        detail = {k: (str(r.get(k))[:500]) for k in ('kind', 'signature', 'describe', 'broken') if k in r}
res['check_replay'] = detail
res['caught'] = bool(viol) and rc != 0
res['caught_with_concrete_input'] = bool(viol) and 'no-failing-input-found' not in viol[0]
res['ran'].append('VERIF_REPO=%s ./check %s --tier quick -> exit %d %s' % (wt, pid, rc, viol[0] if viol else '(no VIOLATION line)'))
d = os.path.join(ROOT, 'seeded', tag)
os.makedirs(d, exist_ok=True)
for f in ['patch.diff', 'demo.cpp', 'demo.sh'] + [os.path.basename(x) for x in glob.glob(os.path.join(out, 'rebased-on-*.diff'))]:
    if os.path.exists(os.path.join(out, f)):
        shutil.copy(os.path.join(out, f), d)
meta = {}
try:
    meta = json.load(open(os.path.join(out, 'meta.json')))
except Exception as e:
    meta = {'note': 'sub-agent meta.json unreadable: %r' % e}
meta['coordinator_verification'] = res
meta['breaks_property'] = pid
json.dump(meta, open(os.path.join(d, 'meta.json'), 'w'), indent=1)
print(tag, 'tests_pass=%s demo_fail_with=%s demo_pass_without=%s caught=%s concrete=%s' % (
    res['tests_pass_with_change'], res['demo_fails_with_change'], res['demo_passes_without_change'], res['caught'], res['caught_with_concrete_input']))
print('   ', res['check_violation_line'], detail)
